package main

// C09 — vanished pods are garbage-collected on the node; existing pods never are.

import (
	"fmt"
	"go/ast"
	"go/token"
	"go/types"
	"sort"
	"strings"
)

func init() { registry["C09"] = c09 }

func c09(c *Ctx) {
	if c.P.Pkg(daemonPkg) == nil {
		c.Unres("C09", daemonPkg, "package not loaded")
		return
	}
	c09R1(c)
	c09R2(c)
	c09R3(c)
	c09R4(c)
	c09R5(c)
	// release before the record is deleted, and only what the record lists (shared rules)
	c05R2(c)
	c04R5(c)
	rulePodExist(c, "C09.R6")
	c09R7(c)
	// what the GC releases is owned under the key it releases with (shared rule)
	c05R4(c)
	// what a GC pass writes (the demoted sticky flag, the deleted record) reaches the disk (shared rule)
	c05R3(c)
	c09R8(c)
	c09R9(c)
	c09R11(c)
	ruleFieldSetByAllBuilders(c, "C09.R10", daemonPkg, "networkService", "ipamType", "NetworkServiceBuilder", "Build", "the IPAM mode the collector's clean-up of the node's runtime record depends on")
	// a handler that dead-locks against the queued collector stops collection for good (shared rule)
	c04R7(c)
	ruleArgSwap(c, "C04.R8", c.P.AllFuncs(), "the whole module (the pod key namespace/name identifies the record and the owner of an address)")
}

func c09R1(c *Ctx) {
	p := c.P
	c.Rule("C09.R1", "gcPods runs entirely under the service write lock (so it excludes every in-flight request, which hold the read lock) and never gives the lock up between its absence checks and the release")
	gc := p.Func(daemonPkg, "networkService.gcPods")
	if gc == nil {
		c.Unres("C09.R1", "networkService.gcPods", "not found")
		return
	}
	la := NewLockAnalysis(p, gc)
	lock := objID(recvObj(gc))
	n := 0
	for _, call := range stateCalls(c, gc) {
		n++
		held := la.HeldBefore(call)
		c.Check(held[lock] == 'W', "C09.R1", "gcPods: "+calleeName(gc.Info(), call)+" under the write lock", p.Pos(call), gc.Key(), "held ∋ W:"+lock, "held="+held.String())
	}
	c.Floor("C09.R1", "state calls in gcPods", 6, n)
	bl := la.analyse(gc.Decl.Body)
	var rel []string
	for nd := range bl.release {
		rel = append(rel, p.Pos(nd))
	}
	sort.Strings(rel)
	c.Check(len(rel) == 0, "C09.R1", "gcPods never releases the lock mid-pass", p.Pos(gc.Decl), gc.Key(), "no Unlock / Cond.Wait in the body (the deferred Unlock runs at exit)", "release points: "+strings.Join(rel, ", "))
	// handlers hold the read lock (shared with C04.R2)
	c04R2(c)
	// the GC loop is the only caller and is started once per service
	c.WhoMay("C09.R1", "drive gcPods", groupCalls(p.CallsTo(nil, gc.Obj)), map[string]string{
		"daemon.networkService.startGarbageCollectionLoop": "the periodic loop (directly, or through a callback / helper referenced only from it)",
	})
}

// gcLoopFacts locates, in gcPods, the per-record loop, the local-pod membership
// flag and the PodExist results.
type gcFacts struct {
	gc        *FuncInfo
	loop      *ast.RangeStmt
	existOK   types.Object // ok of `_, ok := exist[podID]`
	existMap  types.Object
	apiOK     types.Object
	apiErr    types.Object
	podExistC *ast.CallExpr
}

func findGCFacts(c *Ctx) *gcFacts {
	p := c.P
	gc := p.Func(daemonPkg, "networkService.gcPods")
	if gc == nil {
		return nil
	}
	info := gc.Info()
	f := &gcFacts{gc: gc}
	podExist := p.Method("pkg/k8s", "Kubernetes", "PodExist")
	for _, cs := range p.CallsTo([]*FuncInfo{gc}, podExist) {
		f.podExistC = cs.Call
		_, lhs := assignedFromCall(gc, cs.Call)
		if len(lhs) == 2 {
			f.apiOK, f.apiErr = lhs[0], lhs[1]
		}
		for _, nd := range pathTo(gc.Decl.Body, cs.Call) {
			if rs, ok := nd.(*ast.RangeStmt); ok && f.loop == nil {
				f.loop = rs
			}
		}
	}
	if f.loop == nil {
		return f
	}
	// membership test: `_, ok := <map>[key]` on a map[string]bool local
	ast.Inspect(f.loop.Body, func(n ast.Node) bool {
		as, ok := n.(*ast.AssignStmt)
		if !ok || len(as.Lhs) != 2 || len(as.Rhs) != 1 || as.Tok != token.DEFINE {
			return true
		}
		ix, ok := ast.Unparen(as.Rhs[0]).(*ast.IndexExpr)
		if !ok {
			return true
		}
		mo := identObj(info, ix.X)
		if mo == nil {
			return true
		}
		if mt, ok := mo.Type().Underlying().(*types.Map); ok {
			if b, ok := mt.Elem().Underlying().(*types.Basic); ok && b.Kind() == types.Bool && f.existOK == nil {
				f.existOK = identObj(info, as.Lhs[1])
				f.existMap = mo
			}
		}
		return true
	})
	return f
}

func c09R2(c *Ctx) {
	p := c.P
	c.Rule("C09.R2", "in gcPods every kernel-rule cleanup, pool release, record deletion and sticky-record rewrite happens only for a record whose pod is absent from the local running set AND whose absence the API server confirmed without error")
	f := findGCFacts(c)
	if f == nil || f.loop == nil || f.existOK == nil || f.apiOK == nil || f.apiErr == nil {
		c.Unres("C09.R2", "gcPods structure", "per-record loop / local membership test / PodExist results not found")
		return
	}
	gc := f.gc
	info := gc.Info()
	relM := p.Method(eniPkg, "Manager", "Release")
	putM := p.Method(storagePkg, "Storage", "Put")
	var targets []*ast.CallExpr
	ast.Inspect(f.loop.Body, func(n ast.Node) bool {
		call, ok := n.(*ast.CallExpr)
		if !ok {
			return true
		}
		callee := Callee(info, call)
		name := calleeName(info, call)
		if callee == relM || callee == putM || name == "gcPolicyRoutes" || isRecordDelete(p, info, call) {
			targets = append(targets, call)
		}
		return true
	})
	c.Floor("C09.R2", "destructive calls in the per-record loop of gcPods", 4, len(targets))
	for _, call := range targets {
		c.RequireF("C09.R2", "gcPods: "+calleeName(info, call)+" only for a confirmed-absent pod", gc, call,
			"!localRunning[podID] && PodExist == (false, nil)", func(e *FactEngine) (*Formula, error) {
				notLocal := mkNot(e.Cond(&ast.Ident{Name: f.existOK.Name(), NamePos: f.existOK.Pos()}))
				_ = notLocal
				// build from objects directly (scopes differ)
				okAtom := e.boolForm(identFor(info, f.existOK), e.fnScope())
				apiOK := e.boolForm(identFor(info, f.apiOK), e.fnScope())
				errNil := e.eqAtom(objID(f.apiErr), "nil", []string{objID(f.apiErr)})
				return mkAnd(mkNot(okAtom), mkAnd(mkNot(apiOK), errNil)), nil
			})
	}
	// the local running set: filled from GetLocalPods, only for pods whose sandbox has not exited, keyed like the records
	getLocal := p.Method("pkg/k8s", "Kubernetes", "GetLocalPods")
	okFill := false
	var fillDetail []string
	ast.Inspect(gc.Decl.Body, func(n ast.Node) bool {
		as, ok := n.(*ast.AssignStmt)
		if !ok || len(as.Lhs) != 1 {
			return true
		}
		ix, ok := ast.Unparen(as.Lhs[0]).(*ast.IndexExpr)
		if !ok || identObj(info, ix.X) != f.existMap {
			return true
		}
		// enclosing range over the GetLocalPods result
		var rs *ast.RangeStmt
		for _, nd := range pathTo(gc.Decl.Body, as) {
			if r, ok := nd.(*ast.RangeStmt); ok {
				rs = r
			}
		}
		if rs == nil || rs.Value == nil {
			fillDetail = append(fillDetail, "store not inside a range")
			return true
		}
		src := identObj(info, rs.X)
		fromAPI := false
		if src != nil {
			for _, d := range varDefs(gc, src) {
				if as2, ok := d.node.(*ast.AssignStmt); ok && len(as2.Rhs) == 1 {
					if call, ok := as2.Rhs[0].(*ast.CallExpr); ok && Callee(info, call) == getLocal {
						fromAPI = true
					}
				}
			}
		}
		if !fromAPI {
			fillDetail = append(fillDetail, "range source is not GetLocalPods()")
			return true
		}
		o := c.Require("C09.R2", "gcPods: a pod counts as running only while its sandbox has not exited", gc, as, "!$pod.SandboxExited", map[string]string{"$pod": exprString(rs.Value)})
		keyShape := shapeOfVar(p, gc, ix.Index)
		if o.Verdict == Discharged && keyShape == "<ns>/<name>" {
			okFill = true
		} else {
			fillDetail = append(fillDetail, "key shape "+keyShape)
		}
		return true
	})
	c.Check(okFill, "C09.R2", "gcPods: local running set built from GetLocalPods and keyed <namespace>/<name>", p.Pos(gc.Decl), gc.Key(), "exist[PodInfoKey(ns,name)] = true for each listed pod with a live sandbox", strings.Join(fillDetail, "; "))
	// the record key used for the membership test has the same shape
	var idx *ast.IndexExpr
	ast.Inspect(f.loop.Body, func(n ast.Node) bool {
		if ix, ok := n.(*ast.IndexExpr); ok && identObj(info, ix.X) == f.existMap && idx == nil {
			idx = ix
		}
		return true
	})
	if idx != nil {
		sh := shapeOfVar(p, gc, idx.Index)
		c.Check(sh == "<ns>/<name>", "C09.R2", "gcPods: membership test keyed like the running set", p.Pos(idx), gc.Key(), "exist[<namespace>/<name> of the record]", "shape "+sh)
	}
	// a failed GetLocalPods / List aborts the pass before anything is released
	for _, m := range []*types.Func{getLocal, p.Method(storagePkg, "Storage", "List")} {
		for _, cs := range p.CallsTo([]*FuncInfo{gc}, m) {
			_, lhs := assignedFromCall(gc, cs.Call)
			ok := false
			if len(lhs) == 2 && lhs[1] != nil {
				if arm := errArm(gc, lhs[1], cs.Call.End()); arm != nil && arm.Pos() < f.loop.Pos() && len(arm.Body.List) > 0 {
					_, ok = arm.Body.List[len(arm.Body.List)-1].(*ast.ReturnStmt)
				}
			}
			c.Check(ok, "C09.R2", "gcPods: a failed "+m.Name()+" aborts the pass", p.Pos(cs.Call), gc.Key(), "if err != nil { return err } before the per-record loop", "not recognised")
		}
	}
}

// identFor fabricates an identifier expression resolving to obj (registered in info.Uses).
func identFor(info *types.Info, obj types.Object) ast.Expr {
	id := &ast.Ident{Name: obj.Name(), NamePos: obj.Pos()}
	info.Uses[id] = obj
	if tv, ok := obj.(*types.Var); ok {
		info.Types[id] = types.TypeAndValue{Type: tv.Type()}
	}
	return id
}

// ---------- R3 error-kind agreement ----------

type errKinds struct {
	any       bool
	types     map[string]bool // concrete dynamic types that may be returned unwrapped
	sentinels map[types.Object]bool
}

func (k *errKinds) merge(o *errKinds) {
	k.any = k.any || o.any
	for t := range o.types {
		k.types[t] = true
	}
	for s := range o.sentinels {
		k.sentinels[s] = true
	}
}

// errorKindsOf classifies what fn can return as its error result.
func errorKindsOf(p *Prog, fi *FuncInfo, depth int) *errKinds {
	k := &errKinds{types: map[string]bool{}, sentinels: map[types.Object]bool{}}
	if fi == nil || depth > 2 {
		k.any = true
		return k
	}
	info := fi.Info()
	sig := fi.Obj.Type().(*types.Signature)
	ei := errResultIndex(sig)
	if ei < 0 {
		return k
	}
	var classify func(x ast.Expr, d int)
	classify = func(x ast.Expr, d int) {
		x = ast.Unparen(x)
		if tv, ok := info.Types[x]; ok && tv.IsNil() {
			return
		}
		switch t := x.(type) {
		case *ast.CallExpr:
			callee := Callee(info, t)
			if callee == nil || callee.Pkg() == nil {
				k.any = true
				return
			}
			pkg, name := callee.Pkg().Path(), callee.Name()
			switch {
			case pkg == "fmt" && name == "Errorf":
				k.types["*fmt.wrapError"] = true
				for _, a := range t.Args[1:] {
					if o := identObjSel(info, a); o != nil && o.Pkg() != nil && o.Parent() == o.Pkg().Scope() {
						k.sentinels[o] = true
					}
				}
			case pkg == "errors" && name == "New":
				k.types["*errors.errorString"] = true
			case pkg == "github.com/pkg/errors":
				k.types["*pkgerrors.wrapped"] = true
				if len(t.Args) > 0 {
					if o := identObjSel(info, t.Args[0]); o != nil && o.Pkg() != nil && o.Parent() == o.Pkg().Scope() {
						k.sentinels[o] = true
					}
				}
			default:
				if sub := p.FuncOf(callee); sub != nil && sub != fi {
					k.merge(errorKindsOf(p, sub, depth+1))
				} else {
					k.any = true
				}
			}
		case *ast.UnaryExpr:
			if cl, ok := t.X.(*ast.CompositeLit); ok {
				k.types["*"+types.TypeString(info.TypeOf(cl), nil)] = true
				return
			}
			k.any = true
		case *ast.CompositeLit:
			k.types[types.TypeString(info.TypeOf(t), nil)] = true
		case *ast.Ident:
			o := info.ObjectOf(t)
			if o != nil && o.Pkg() != nil && o.Parent() == o.Pkg().Scope() {
				k.sentinels[o] = true
				k.types["sentinel"] = true
				return
			}
			// local variable: union of its definitions
			if d > 3 {
				k.any = true
				return
			}
			ds := varDefs(fi, o)
			if len(ds) == 0 {
				k.any = true
			}
			for _, df := range ds {
				if df.rhs != nil {
					classify(df.rhs, d+1)
				} else if as, ok := df.node.(*ast.AssignStmt); ok && len(as.Rhs) == 1 {
					classify(as.Rhs[0], d+1)
				} else {
					k.any = true
				}
			}
		default:
			k.any = true
		}
	}
	for _, r := range declReturns(fi.Decl.Body) {
		if len(r.Results) == sig.Results().Len() {
			classify(r.Results[ei], 0)
		} else {
			k.any = true
		}
	}
	return k
}

func c09R3(c *Ctx) {
	p := c.P
	c.Rule("C09.R3", "the tolerance for a record whose interface is gone can actually fire: gcPolicyRoutes returns nil under a not-found test of link.GetDeviceNumber's error, and the tested error kind is one the callee can produce (a type assertion to a type no return expression can have, or errors.Is on a sentinel the callee never wraps, is a dead guard)")
	fn := p.Func(daemonPkg, "gcPolicyRoutes")
	getDev := p.Func("pkg/link", "GetDeviceNumber")
	if fn == nil || getDev == nil {
		c.Unres("C09.R3", "daemon.gcPolicyRoutes / link.GetDeviceNumber", "not found")
		return
	}
	info := fn.Info()
	calls := p.CallsTo([]*FuncInfo{fn}, getDev.Obj)
	if len(calls) != 1 {
		c.Bad("C09.R3", "gcPolicyRoutes resolves the interface by MAC", p.Pos(fn.Decl), fn.Key(), "one call of link.GetDeviceNumber", fmt.Sprintf("%d calls", len(calls)))
		return
	}
	_, lhs := assignedFromCall(fn, calls[0].Call)
	if len(lhs) != 2 || lhs[1] == nil {
		c.Bad("C09.R3", "GetDeviceNumber error bound", p.Pos(calls[0].Call), fn.Key(), "", "error discarded")
		return
	}
	errObj := lhs[1]
	kinds := errorKindsOf(p, getDev, 0)
	// find tolerance tests on errObj: type assertions and errors.Is/As
	type test struct {
		node ast.Node
		live bool
		desc string
		body []ast.Stmt // statements executed when the test holds
	}
	var tests []test
	ast.Inspect(fn.Decl.Body, func(n ast.Node) bool {
		// if-form and tagless-switch form of the test
		type guarded struct {
			conds []ast.Node
			body  []ast.Stmt
		}
		var gs []guarded
		switch t := n.(type) {
		case *ast.IfStmt:
			g := guarded{conds: []ast.Node{t.Cond}, body: t.Body.List}
			if t.Init != nil {
				g.conds = append(g.conds, t.Init)
			}
			gs = append(gs, g)
		case *ast.SwitchStmt:
			if t.Tag == nil {
				for _, cl := range t.Body.List {
					cc := cl.(*ast.CaseClause)
					g := guarded{body: cc.Body}
					for _, x := range cc.List {
						g.conds = append(g.conds, x)
					}
					gs = append(gs, g)
				}
			}
		}
		for _, gd := range gs {
			gd := gd
			scan := func(x ast.Node) {
				ast.Inspect(x, func(m ast.Node) bool {
					switch t := m.(type) {
					case *ast.TypeAssertExpr:
						if identObj(info, t.X) == errObj && t.Type != nil {
							ty := types.TypeString(info.TypeOf(t.Type), nil)
							_, isIface := info.TypeOf(t.Type).Underlying().(*types.Interface)
							live := kinds.any || kinds.types[ty] || isIface
							tests = append(tests, test{t, live, "type assertion to " + ty, gd.body})
						}
					case *ast.CallExpr:
						callee := Callee(info, t)
						if callee != nil && callee.Pkg() != nil && (callee.Pkg().Path() == "errors" || callee.Pkg().Path() == "github.com/pkg/errors") && callee.Name() == "Is" && len(t.Args) == 2 && identObj(info, t.Args[0]) == errObj {
							s := identObjSel(info, t.Args[1])
							live := kinds.any || (s != nil && kinds.sentinels[s])
							tests = append(tests, test{t, live, "errors.Is(err, " + exprString(t.Args[1]) + ")", gd.body})
						}
					}
					return true
				})
			}
			for _, cnd := range gd.conds {
				scan(cnd)
			}
		}
		return true
	})
	tolerates := false
	for _, t := range tests {
		// body returns nil
		retNil := false
		for _, s := range t.body {
			if r, ok := s.(*ast.ReturnStmt); ok && len(r.Results) == 1 && info.Types[ast.Unparen(r.Results[0])].IsNil() {
				retNil = true
			}
		}
		var ks []string
		for k := range kinds.types {
			ks = append(ks, k)
		}
		for s := range kinds.sentinels {
			ks = append(ks, "wraps "+s.Name())
		}
		sort.Strings(ks)
		c.Check(t.live, "C09.R3", "gcPolicyRoutes: "+t.desc+" can fire", p.Pos(t.node), fn.Key(),
			"the tested error kind is producible by link.GetDeviceNumber", "GetDeviceNumber returns only {"+strings.Join(ks, ", ")+"}: the guard is dead, so a record whose interface is detached makes every GC pass fail")
		if t.live && retNil {
			tolerates = true
		}
	}
	if len(tests) == 0 {
		c.Bad("C09.R3", "gcPolicyRoutes tolerates a missing interface", p.Pos(fn.Decl), fn.Key(), "a not-found test on GetDeviceNumber's error that returns nil", "no error-kind test found")
	} else {
		c.Check(tolerates, "C09.R3", "gcPolicyRoutes tolerates a missing interface", p.Pos(fn.Decl), fn.Key(), "a live not-found test on GetDeviceNumber's error whose branch returns nil", "no live tolerant branch")
	}
	// GetDeviceNumber really reports not-found distinctly
	var ks []string
	for s := range kinds.sentinels {
		ks = append(ks, s.Name())
	}
	c.Check(len(kinds.sentinels) > 0 || kinds.any, "C09.R3", "link.GetDeviceNumber marks not-found with a sentinel", p.Pos(getDev.Decl), getDev.Key(), "a wrapped package-level sentinel on the not-found return", strings.Join(ks, ","))
}

func c09R4(c *Ctx) {
	p := c.P
	c.Rule("C09.R4", "sticky-IP records get exactly one extra period: the rewrite with IPStickTime = 0 happens only outside centralized IPAM, is followed by `continue`, and nothing is released in that pass")
	f := findGCFacts(c)
	if f == nil || f.loop == nil {
		c.Unres("C09.R4", "gcPods loop", "not found")
		return
	}
	gc := f.gc
	info := gc.Info()
	putM := p.Method(storagePkg, "Storage", "Put")
	relM := p.Method(eniPkg, "Manager", "Release")
	puts := p.CallsTo([]*FuncInfo{gc}, putM)
	c.Floor("C09.R4", "sticky rewrite sites", 1, len(puts))
	for _, ps := range puts {
		recv := recvObj(gc).Name()
		c.Require("C09.R4", "gcPods: sticky rewrite only outside CRD IPAM and only for sticky records", gc, ps.Call, recv+".ipamType != types.IPAMTypeCRD", nil)
		// stick time cleared before the write
		stick := false
		for _, s := range p.StoresTo([]*FuncInfo{gc}, p.Field("types/daemon", "PodInfo", "IPStickTime")) {
			if s.Node.Pos() < ps.Call.Pos() && s.RHS != nil && info.Types[s.RHS].Value != nil && info.Types[s.RHS].Value.ExactString() == "0" {
				stick = true
			}
		}
		c.Check(stick, "C09.R4", "gcPods: the rewritten record has IPStickTime = 0 (next pass collects it)", p.Pos(ps.Call), gc.Key(), "PodInfo.IPStickTime = 0 before resourceDB.Put", "no such store")
		q := NewPathQuery(p, gc, nil)
		q.StopBlock = loopHead(f.loop)
		for _, r := range p.CallsTo([]*FuncInfo{gc}, relM) {
			w := q.Escapes(isExactly(ps.Call), isExactly(r.Call), nil, nil)
			c.Check(w == nil, "C09.R4", "gcPods: nothing released in the pass that rewrites a sticky record", p.Pos(ps.Call), gc.Key(), "never: resourceDB.Put → eniMgr.Release within one record", "path: "+p.describePath(w))
		}
	}
}

// R5: contradiction rule on the stored record's PodInfo pointer.
func c09R5(c *Ctx) {
	c.Rule("C09.R5", "stored-record robustness (contradiction rule): a pointer field of the stored record that is nil-checked somewhere in gcPods is not dereferenced unguarded elsewhere in it")
	gc := c.P.Func(daemonPkg, "networkService.gcPods")
	if gc == nil {
		c.Unres("C09.R5", "gcPods", "not found")
		return
	}
	n := contradictionRule(c, "C09.R5", gc)
	c.Floor("C09.R5", "dereferences of nil-checked pointer paths in gcPods", 1, n)
}

// contradictionRule (E8.P5): for every pointer-typed access path that is
// compared with nil somewhere in fn, each dereference of it must be dominated
// by a non-nil fact. Returns the number of dereferences examined.
func contradictionRule(c *Ctx, rule string, fn *FuncInfo) int {
	p := c.P
	info := fn.Info()
	e := NewFactEngine(p, fn)
	sc := e.fnScope()
	checked := map[string]ast.Expr{}
	ast.Inspect(fn.Decl.Body, func(n ast.Node) bool {
		be, ok := n.(*ast.BinaryExpr)
		if !ok || (be.Op != token.EQL && be.Op != token.NEQ) {
			return true
		}
		var x ast.Expr
		if info.Types[ast.Unparen(be.Y)].IsNil() {
			x = be.X
		} else if info.Types[ast.Unparen(be.X)].IsNil() {
			x = be.Y
		}
		if x == nil {
			return true
		}
		if _, isSel := ast.Unparen(x).(*ast.SelectorExpr); !isSel {
			return true // only field paths (locals like err are re-assigned all the time)
		}
		if _, isPtr := info.TypeOf(x).Underlying().(*types.Pointer); !isPtr {
			return true
		}
		checked[e.canon(x, sc, nil)] = x
		return true
	})
	n := 0
	seen := map[string]bool{}
	ast.Inspect(fn.Decl.Body, func(nd ast.Node) bool {
		sel, ok := nd.(*ast.SelectorExpr)
		if !ok || info.Selections[sel] == nil {
			return true
		}
		base := e.canon(sel.X, sc, nil)
		src, isChecked := checked[base]
		if !isChecked {
			return true
		}
		n++
		key := fmt.Sprintf("%s: %s dereferenced", fn.Key(), exprString(src))
		o := c.RequireF(rule, key, fn, sel, exprString(src)+" != nil (it is nil-checked elsewhere in this function)", func(e2 *FactEngine) (*Formula, error) {
			return mkNot(e2.eqAtom(e2.canon(sel.X, e2.fnScope(), nil), "nil", []string{e2.canon(sel.X, e2.fnScope(), nil)})), nil
		})
		// report each path once (first unguarded dereference), keep the count
		if o.Verdict == Violated {
			if seen[base] {
				o.Verdict = Discharged
				o.Detail = "duplicate of an already reported unguarded dereference"
				o.NonTrivial = false
			}
			seen[base] = true
		}
		return true
	})
	return n
}

// R7: a pass that fails does not end the loop. gcPods is called from a polling
// callback (func(ctx) (done bool, err error)): the poller stops for good on the
// first non-nil error or done == true, so every return of the callback yields
// the constants (false, nil); with named results a bare return is accepted only
// when the results are never assigned anything else.
func c09R7(c *Ctx) {
	p := c.P
	c.Rule("C09.R7", "the garbage-collection loop survives a failing pass: the polling callback that calls gcPods returns (false, nil) on every return — the error of a pass is logged, never handed to the poller (which would stop polling for good)")
	gc := p.Func(daemonPkg, "networkService.gcPods")
	if gc == nil {
		c.Unres("C09.R7", "networkService.gcPods", "not found")
		return
	}
	n := 0
	for _, fn := range p.FuncsInPkg(daemonPkg) {
		for _, cs := range p.CallsTo([]*FuncInfo{fn}, gc.Obj) {
			info := fn.Info()
			if cs.Lit == nil && isPollCallback(fn) {
				// a named polling callback (passed as a method / function value): its own returns are the callback's
				n++
				c09CallbackReturns(c, fn, fn.Decl.Body, fn.Obj.Type().(*types.Signature), fn.Decl.Type)
				continue
			}
			if cs.Lit == nil {
				// called from a function body: the loop form. No return / break in the enclosing loop except on ctx.Done()
				var loop *ast.ForStmt
				for _, x := range pathTo(fn.Decl.Body, cs.Call) {
					if f, ok := x.(*ast.ForStmt); ok && loop == nil {
						loop = f
					}
				}
				if loop == nil {
					c.Undec("C09.R7", fn.Name+": gcPods is called from a loop or a polling callback", p.Pos(cs.Call), fn.Key(), "periodic driver", "neither a polling callback nor a for loop encloses the call")
					continue
				}
				n++
				bad := ""
				ast.Inspect(loop.Body, func(k ast.Node) bool {
					switch s := k.(type) {
					case *ast.FuncLit:
						return false
					case *ast.CommClause:
						if s.Comm != nil && strings.Contains(exprString2(s.Comm), "Done()") {
							return false
						}
					case *ast.ReturnStmt:
						bad = p.Pos(s)
					case *ast.BranchStmt:
						if s.Tok == token.BREAK || s.Tok == token.GOTO {
							bad = p.Pos(s)
						}
					}
					return true
				})
				c.Check(bad == "", "C09.R7", fn.Name+": the loop around gcPods ends only on ctx.Done()", p.Pos(loop), fn.Key(), "no return / break in the loop body outside the Done() case", "exit at "+bad)
				continue
			}
			sig, _ := info.TypeOf(cs.Lit).(*types.Signature)
			if sig == nil || sig.Results().Len() != 2 || errResultIndex(sig) != 1 {
				// a callback without results (wait.Until style) cannot stop the loop
				n++
				c.Check(sig != nil && sig.Results().Len() == 0, "C09.R7", fn.Name+": the callback around gcPods cannot stop the loop", p.Pos(cs.Lit), fn.Key(), "func() or func(ctx) (bool, error)", "unexpected callback signature")
				continue
			}
			n++
			c09CallbackReturns(c, fn, cs.Lit.Body, sig, cs.Lit.Type)
		}
	}
	c.Floor("C09.R7", "drivers of gcPods", 1, n)
}

// isPollCallback: func(ctx) (bool, error) that is only ever referenced as a value (never called).
func isPollCallback(fn *FuncInfo) bool {
	sig := fn.Obj.Type().(*types.Signature)
	if sig.Results().Len() != 2 || errResultIndex(sig) != 1 {
		return false
	}
	if b, ok := sig.Results().At(0).Type().Underlying().(*types.Basic); !ok || b.Kind() != types.Bool {
		return false
	}
	return true
}

// c09CallbackReturns: every return of a polling callback yields the constants (false, nil).
func c09CallbackReturns(c *Ctx, fn *FuncInfo, body *ast.BlockStmt, sig *types.Signature, ft *ast.FuncType) {
	p := c.P
	info := fn.Info()
	named := map[types.Object]bool{}
	if ft.Results != nil {
		for _, f := range ft.Results.List {
			for _, nm := range f.Names {
				if o := info.Defs[nm]; o != nil && nm.Name != "_" {
					named[o] = true
				}
			}
		}
	}
	dirty := map[types.Object]string{}
	ast.Inspect(body, func(k ast.Node) bool {
		if _, ok := k.(*ast.FuncLit); ok {
			return false
		}
		as, ok := k.(*ast.AssignStmt)
		if !ok {
			return true
		}
		for i, l := range as.Lhs {
			o := identObj(info, l)
			if o == nil || !named[o] {
				continue
			}
			clean := false
			if len(as.Rhs) == len(as.Lhs) {
				tv := info.Types[ast.Unparen(as.Rhs[i])]
				clean = tv.IsNil() || (tv.Value != nil && tv.Value.String() == "false")
			}
			if !clean {
				dirty[o] = p.Pos(as)
			}
		}
		return true
	})
	for _, r := range declReturns(body) {
		ok, why := true, ""
		if len(r.Results) == 0 {
			for o, at := range dirty {
				ok, why = false, "bare return with "+o.Name()+" assigned at "+at
			}
		} else if len(r.Results) == 2 {
			for i, x := range r.Results {
				tv := info.Types[ast.Unparen(x)]
				if tv.IsNil() || (tv.Value != nil && tv.Value.String() == "false") {
					continue
				}
				if o := identObj(info, x); o != nil && named[o] && dirty[o] == "" {
					continue
				}
				ok, why = false, fmt.Sprintf("result %d is %s", i, exprString(x))
			}
		} else {
			ok, why = false, "forwarded call"
		}
		c.Check(ok, "C09.R7", fn.Name+": the polling callback returns (false, nil)", p.Pos(r), fn.Key(), "every return of the callback yields the constants false, nil", why)
	}
}

// R8: releasing cannot fail on a stale record. The pools' Release methods only
// update in-memory ownership; for a record whose address the pool no longer
// tracks (unassigned out of band, interface gone) they succeed without doing
// anything. gcPods returns on the first release error, so an implementation
// that reported "not tracked" as an error would stop every pass at that record.
func c09R8(c *Ctx) {
	p := c.P
	c.Rule("C09.R8", "the NetworkInterface.Release implementations of pkg/eni report no error of their own: every return yields a nil error or forwards another implementation's Release — a stale record never makes the collector's release fail")
	n := 0
	for _, tn := range []string{"Local", "Remote", "Trunk", "CRDV2"} {
		fn := p.Func(eniPkg, tn+".Release")
		if fn == nil {
			continue
		}
		info := fn.Info()
		sig := fn.Obj.Type().(*types.Signature)
		ei := errResultIndex(sig)
		if ei < 0 {
			continue
		}
		for _, r := range declReturns(fn.Decl.Body) {
			n++
			ok, why := false, ""
			switch {
			case len(r.Results) == sig.Results().Len():
				ok = info.Types[ast.Unparen(r.Results[ei])].IsNil()
				why = "returns " + exprString(r.Results[ei])
			case len(r.Results) == 1:
				// return x.Release(…): another implementation, checked on its own
				if call, isC := ast.Unparen(r.Results[0]).(*ast.CallExpr); isC {
					if f := Callee(info, call); f != nil && f.Name() == "Release" {
						ok = true
					}
				}
				why = "forwards " + exprString(r.Results[0])
			default:
				why = "bare return"
			}
			c.Check(ok, "C09.R8", tn+".Release reports no error of its own", p.Pos(r), fn.Key(), "nil error, or a forwarded Release", why)
		}
	}
	c.Floor("C09.R8", "returns of the Release implementations", 4, n)
}

// R9: the manager answers "released" only after the backends were asked. Every nil-error return of
// Manager.Release lies behind the loop that offers each resource to the interfaces; no test on the
// request (an empty UID in a record written by an older build, …) answers for them. gcPods deletes the
// record on that answer.
func c09R9(c *Ctx) {
	p := c.P
	c.Rule("C09.R9", "Manager.Release returns success only after offering every resource of the request to the backends (must-pass: entry → loop over the request's resources → return nil)")
	fn := p.Func(eniPkg, "Manager.Release")
	if fn == nil {
		c.Unres("C09.R9", "Manager.Release", "not found")
		return
	}
	info := fn.Info()
	sig := fn.Obj.Type().(*types.Signature)
	var loop *ast.RangeStmt
	resF := p.Field(eniPkg, "ReleaseRequest", "NetworkResources")
	ast.Inspect(fn.Decl.Body, func(k ast.Node) bool {
		if rs, ok := k.(*ast.RangeStmt); ok && loop == nil && resF != nil && fieldOf(info, derefExpr(fn, rs.X)) == resF {
			loop = rs
		}
		return true
	})
	if loop == nil {
		c.Bad("C09.R9", "Manager.Release iterates the request's resources", p.Pos(fn.Decl), fn.Key(), "for _, r := range req.NetworkResources", "not found")
		return
	}
	q := NewPathQuery(p, fn, nil)
	n := 0
	for _, r := range declReturns(fn.Decl.Body) {
		if guardedFailure(fn, sig, r) {
			continue
		}
		n++
		w := q.Escapes(nil, isExactly(r), func(k ast.Node) bool {
			return k == ast.Node(loop) || k == ast.Node(loop.X) || (k.Pos() >= loop.Pos() && k.End() <= loop.End())
		}, nil)
		c.Check(w == nil, "C09.R9", "Manager.Release: success only behind the loop over the resources", p.Pos(r), fn.Key(), "must-pass: range req.NetworkResources", "path: "+p.describePath(w))
	}
	c.Floor("C09.R9", "success returns of Manager.Release", 1, n)
}

// R11: "no such device" is said with the sentinel. GetDeviceNumber's exit after the scan of the links
// (no device carries the MAC) wraps link.ErrNotFound — the kind gcPolicyRoutes and the plugin test with
// errors.Is to tolerate a detached interface. (R3 only asks that the kind can be produced at all.)
func c09R11(c *Ctx) {
	p := c.P
	c.Rule("C09.R11", "link.GetDeviceNumber: every failure it reports on its own account (not the forwarded error of a call) wraps link.ErrNotFound")
	fn := p.Func("pkg/link", "GetDeviceNumber")
	sentinel := p.LookupObj("pkg/link", "ErrNotFound")
	if fn == nil || sentinel == nil {
		c.Unres("C09.R11", "link.GetDeviceNumber / link.ErrNotFound", "not found")
		return
	}
	info := fn.Info()
	sig := fn.Obj.Type().(*types.Signature)
	// a failure this function reports on its own account (it does not pass on another call's error) is
	// "no such device": it wraps the sentinel
	n := 0
	for _, r := range declReturns(fn.Decl.Body) {
		if len(r.Results) != sig.Results().Len() || info.Types[ast.Unparen(r.Results[len(r.Results)-1])].IsNil() {
			continue
		}
		res := r.Results[len(r.Results)-1]
		wraps, forwards := false, false
		ast.Inspect(res, func(k ast.Node) bool {
			if id, ok := k.(*ast.Ident); ok {
				o := info.ObjectOf(id)
				if o == sentinel {
					wraps = true
				} else if v, ok := o.(*types.Var); ok && v.Type().String() == "error" {
					forwards = true
				}
			}
			return true
		})
		if forwards && !wraps {
			continue
		}
		n++
		c.Check(wraps, "C09.R11", "GetDeviceNumber: the not-found exit wraps the sentinel", p.Pos(r), fn.Key(), "errors.Wrapf(ErrNotFound, …) / fmt.Errorf(\"…%w\", ErrNotFound)", exprString2(r))
	}
	c.Floor("C09.R11", "own failure exits", 1, n)
}
