package main

// E5 who-may-call / who-may-write with closure under private helpers.

import (
	"go/ast"
	"go/types"
	"sort"
	"strings"
	"unicode"
)

func (p *Prog) buildCallers() {
	if p.callers != nil {
		return
	}
	p.callers = map[*types.Func][]*FuncInfo{}
	for _, fn := range p.funcList {
		info := fn.Info()
		seen := map[*types.Func]bool{}
		ast.Inspect(fn.Decl.Body, func(n ast.Node) bool {
			// any reference (call or method/function value) counts
			var id *ast.Ident
			switch t := n.(type) {
			case *ast.SelectorExpr:
				id = t.Sel
			case *ast.Ident:
				id = t
			}
			if id != nil {
				if f, ok := info.Uses[id].(*types.Func); ok {
					f = f.Origin()
					if !seen[f] {
						seen[f] = true
						p.callers[f] = append(p.callers[f], fn)
					}
				}
			}
			return true
		})
	}
}

func isExported(name string) bool {
	if i := strings.LastIndex(name, "."); i >= 0 {
		name = name[i+1:]
	}
	for _, r := range name {
		return unicode.IsUpper(r)
	}
	return false
}

// allowedFn: fn is listed, or is an unexported function all of whose callers
// are (transitively, bound 3) allowed and live in the same package.
func (p *Prog) allowedFn(fn *FuncInfo, allowed map[string]string, depth int) bool {
	if _, ok := allowed[fn.Key()]; ok {
		return true
	}
	if depth >= 3 {
		return false
	}
	p.buildCallers()
	cs := p.callers[fn.Obj]
	if len(cs) == 0 {
		// a helper whose every call site was expanded is dead in the normalised view: its
		// statements are judged where they were expanded
		return p.expandedFns[fn.Key()]
	}
	for _, c := range cs {
		if c == fn {
			continue
		}
		if c.Pkg != fn.Pkg || !p.allowedFn(c, allowed, depth+1) {
			return false
		}
	}
	return true
}

// WhoMay checks that each site function is in the allowed table (closed under
// private helpers) and that every table entry still has at least one site.
func (c *Ctx) WhoMay(rule, what string, sites map[*FuncInfo][]ast.Node, allowed map[string]string) {
	var fns []*FuncInfo
	for f := range sites {
		fns = append(fns, f)
	}
	sort.Slice(fns, func(i, j int) bool { return fns[i].Key() < fns[j].Key() })
	for _, f := range fns {
		for _, n := range sites[f] {
			key := what + " in " + f.Key()
			if c.P.allowedFn(f, allowed, 0) {
				c.OK(rule, key, c.P.Pos(n), f.Key(), "only "+tableKeys(allowed)+" may "+what)
			} else {
				c.Bad(rule, key, c.P.Pos(n), f.Key(), "only "+tableKeys(allowed)+" may "+what, "new site outside the frozen table")
			}
		}
	}
}

func tableKeys(m map[string]string) string {
	var ks []string
	for k := range m {
		ks = append(ks, k)
	}
	sort.Strings(ks)
	return "{" + strings.Join(ks, ", ") + "}"
}

func groupStores(ss []Store) map[*FuncInfo][]ast.Node {
	m := map[*FuncInfo][]ast.Node{}
	for _, s := range ss {
		m[s.Fn] = append(m[s.Fn], s.Node)
	}
	return m
}

func groupCalls(cs []CallSite) map[*FuncInfo][]ast.Node {
	m := map[*FuncInfo][]ast.Node{}
	for _, s := range cs {
		m[s.Fn] = append(m[s.Fn], s.Call)
	}
	return m
}

// PrivateClosure returns fn followed by the unexported same-package functions that are
// referenced only from the set built so far (helpers private to fn), to the given depth.
func (p *Prog) PrivateClosure(fn *FuncInfo, depth int) []*FuncInfo {
	p.buildCallers()
	set := map[*FuncInfo]bool{fn: true}
	out := []*FuncInfo{fn}
	for d := 0; d < depth; d++ {
		var add []*FuncInfo
		for _, f := range out {
			for _, cs := range p.CallsIn(f) {
				g := p.FuncOf(cs.Callee)
				if g == nil || set[g] || g.Pkg != fn.Pkg || isExported(g.Name) {
					continue
				}
				only := true
				for _, caller := range p.callers[g.Obj] {
					if !set[caller] && caller != g {
						only = false
					}
				}
				if only {
					set[g] = true
					add = append(add, g)
				}
			}
		}
		if len(add) == 0 {
			break
		}
		out = append(out, add...)
	}
	return out
}

// callSitesOf lists the calls to callee inside fn.
func (p *Prog) callSitesOf(fn, callee *FuncInfo) []CallSite {
	return p.CallsTo([]*FuncInfo{fn}, callee.Obj)
}

// deadInView: the helper was expanded at every call site, so nothing refers to it any more in
// the normalised program; its statements are judged where they were expanded.
func (p *Prog) deadInView(fn *FuncInfo) bool {
	p.buildCallers()
	return p.expandedFns[fn.Key()] && len(p.callers[fn.Obj]) == 0
}
