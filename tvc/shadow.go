package main

// Shadowing slips. Go lets `:=` in a nested block declare a new variable with the name of an outer one;
// two shapes of it are almost never meant and both leave the outer variable — the one the code after the
// block looks at — untouched:
//   S1  a plain assignment to the inner (shadowing) variable whose value is never read before the inner
//       scope ends (`if err := f(); err != nil {…} else { err = g() }` followed by `if err != nil`);
//   S2  a `:=` statement in a nested block all of whose names shadow outer locals of the same type, one of
//       them not an error, while that outer variable is read after the block (`a, b := x, y` meant `=`).
// The rule is generic and runs over a stated scope; every report names the inner declaration.

import (
	"go/ast"
	"go/token"
	"go/types"
)

type shadowFinding struct {
	fn   *FuncInfo
	node ast.Node
	kind string
	what string
}

func shadowFindings(fns []*FuncInfo) (out []shadowFinding, examined int) {
	for _, fn := range fns {
		if fn.Decl.Body == nil {
			continue
		}
		info := fn.Info()
		fnScope := info.Scopes[fn.Decl.Type]
		if fnScope == nil {
			continue
		}
		inFn := func(o types.Object) bool {
			if o == nil || o.Parent() == nil {
				return false
			}
			for s := o.Parent(); s != nil; s = s.Parent() {
				if s == fnScope {
					return true
				}
			}
			return false
		}
		// outer: the variable of an enclosing scope (within the function) that v shadows
		outerOf := func(v *types.Var) *types.Var {
			if v.Parent() == nil {
				return nil
			}
			for s := v.Parent().Parent(); s != nil; s = s.Parent() {
				if o, ok := s.Lookup(v.Name()).(*types.Var); ok && o != v {
					if inFn(o) && types.Identical(o.Type(), v.Type()) && o.Pos() < v.Pos() {
						return o
					}
					return nil
				}
				if s == fnScope {
					break
				}
			}
			return nil
		}
		// reads and writes of every variable, in source order
		type mention struct {
			pos   token.Pos
			write bool
		}
		mentions := map[*types.Var][]mention{}
		lhs := map[*ast.Ident]bool{}
		ast.Inspect(fn.Decl.Body, func(n ast.Node) bool {
			switch t := n.(type) {
			case *ast.AssignStmt:
				if t.Tok == token.ASSIGN || t.Tok == token.DEFINE {
					for _, l := range t.Lhs {
						if id, ok := l.(*ast.Ident); ok {
							lhs[id] = true
						}
					}
				}
			}
			return true
		})
		ast.Inspect(fn.Decl.Body, func(n ast.Node) bool {
			if id, ok := n.(*ast.Ident); ok {
				if v, ok := info.ObjectOf(id).(*types.Var); ok && !v.IsField() {
					mentions[v] = append(mentions[v], mention{id.Pos(), lhs[id]})
				}
			}
			return true
		})
		isErr := func(t types.Type) bool { return types.Identical(t, types.Universe.Lookup("error").Type()) }
		// S1
		ast.Inspect(fn.Decl.Body, func(n ast.Node) bool {
			as, ok := n.(*ast.AssignStmt)
			if !ok || as.Tok != token.ASSIGN {
				return true
			}
			for _, l := range as.Lhs {
				id, ok := l.(*ast.Ident)
				if !ok {
					continue
				}
				v, ok := info.Uses[id].(*types.Var)
				if !ok || v.IsField() || v.Parent() == nil {
					continue
				}
				o := outerOf(v)
				if o == nil {
					continue
				}
				examined++
				readLater := false
				for _, m := range mentions[v] {
					if m.pos > as.End() && !m.write {
						readLater = true
					}
				}
				// a loop may read it on the next iteration
				for _, anc := range pathTo(fn.Decl.Body, as) {
					switch anc.(type) {
					case *ast.ForStmt, *ast.RangeStmt:
						if anc.Pos() > v.Pos() {
							for _, m := range mentions[v] {
								if m.pos >= anc.Pos() && m.pos < as.Pos() && !m.write {
									readLater = true
								}
							}
						}
					case *ast.FuncLit:
						readLater = true // captured: judged elsewhere
					}
				}
				outerRead := false
				for _, m := range mentions[o] {
					if m.pos > v.Parent().End() && !m.write {
						outerRead = true
					}
				}
				if !readLater && outerRead {
					out = append(out, shadowFinding{fn, as, "S1", "the value assigned to the inner `" + v.Name() + "` (declared at " + fn.Pkg.Fset.Position(v.Pos()).String() + ") is never read; the outer `" + o.Name() + "` that the code after the block reads keeps its old value"})
				}
			}
			return true
		})
		// S2
		var visit func(list []ast.Stmt, nested bool)
		visitStmt := func(st ast.Stmt) {}
		visit = func(list []ast.Stmt, nested bool) {
			for _, st := range list {
				if as, ok := st.(*ast.AssignStmt); ok && as.Tok == token.DEFINE && nested {
					all, nonErr := len(as.Lhs) > 0, (*types.Var)(nil)
					var inner *types.Var
					for _, l := range as.Lhs {
						id, ok := l.(*ast.Ident)
						if !ok || id.Name == "_" {
							all = false
							break
						}
						v, _ := info.Defs[id].(*types.Var)
						if v == nil {
							all = false
							break
						}
						o := outerOf(v)
						if o == nil {
							all = false
							break
						}
						if !isErr(o.Type()) && nonErr == nil {
							nonErr, inner = o, v
						}
					}
					if all && nonErr != nil {
						examined++
						outerRead := false
						for _, m := range mentions[nonErr] {
							if m.pos > inner.Parent().End() && !m.write {
								outerRead = true
							}
						}
						if outerRead {
							out = append(out, shadowFinding{fn, as, "S2", "`:=` declares new variables for every name; the outer `" + nonErr.Name() + "` read after the block is not the one assigned here"})
						}
					}
				}
				visitStmt(st)
			}
		}
		visitStmt = func(st ast.Stmt) {
			switch t := st.(type) {
			case *ast.BlockStmt:
				visit(t.List, true)
			case *ast.IfStmt:
				visit(t.Body.List, true)
				if t.Else != nil {
					visitStmt(t.Else)
				}
			case *ast.ForStmt:
				visit(t.Body.List, true)
			case *ast.RangeStmt:
				visit(t.Body.List, true)
			case *ast.SwitchStmt:
				for _, cc := range t.Body.List {
					visit(cc.(*ast.CaseClause).Body, true)
				}
			case *ast.TypeSwitchStmt:
				for _, cc := range t.Body.List {
					visit(cc.(*ast.CaseClause).Body, true)
				}
			case *ast.SelectStmt:
				for _, cc := range t.Body.List {
					visit(cc.(*ast.CommClause).Body, true)
				}
			case *ast.LabeledStmt:
				visitStmt(t.Stmt)
			}
		}
		visit(fn.Decl.Body.List, false)
	}
	return out, examined
}

// asWritten is the program the author wrote (the helper-expanded view nests callee bodies in blocks,
// which shadow by construction).
func asWritten(p *Prog) *Prog {
	if p.Raw != nil {
		return p.Raw
	}
	return p
}

func ruleShadow(c *Ctx, rule string, scope string) {
	p := asWritten(c.P)
	fns := p.live()
	c.Rule(rule, "no shadowing slip in "+scope+": no assignment to an inner variable that shadows an outer one is dead while the outer one is read after the block, and no `:=` in a nested block redeclares only outer names while the outer value is read afterwards")
	fs, n := shadowFindings(fns)
	for _, f := range fs {
		c.Bad(rule, f.kind+" in "+f.fn.Key()+": "+exprString2(f.node), p.Pos(f.node), f.fn.Key(), "the outer variable is the one assigned", f.what)
	}
	if len(fs) == 0 {
		c.OK(rule, "shadowing declarations examined", "", "", "none leaves an outer variable stale")
	}
	c.Floor(rule, "shadowing assignments / declarations examined", 1, n)
}
