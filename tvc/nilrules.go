package main

// Two panic shapes that need a particular history to show, and that are visible
// in the shape of the code:
//
//  P8  a map field of a struct is stored into (x.f[k] = v) although some way of
//      making an x leaves f nil: a composite literal without f, or a zero-value
//      variable whose f nobody assigns. API types (pkg/apis) are left out: their
//      values come from decoders.
//  P9  a function with an interface result returns a pointer variable that may
//      still hold its zero value: the caller's `== nil` test then says "not
//      nil" for a nil pointer, and the first method that touches a field panics.

import (
	"fmt"
	"go/ast"
	"go/token"
	"go/types"
	"sort"
	"strings"
)

type mapFieldStore struct {
	fn    *FuncInfo
	node  ast.Node
	field *types.Var
	owner *types.Named
}

func ownerOf(info *types.Info, sel *ast.SelectorExpr) *types.Named {
	return derefNamed(info.TypeOf(sel.X))
}

// nilMapStores returns the index-stores into map fields that are not preceded,
// in their own function, by an assignment or a nil test of the same field.
func nilMapStores(p *Prog, fns []*FuncInfo) []mapFieldStore {
	var out []mapFieldStore
	for _, fn := range fns {
		if fn.Decl.Body == nil {
			continue
		}
		info := fn.Info()
		guarded := map[*types.Var]bool{}
		ast.Inspect(fn.Decl.Body, func(n ast.Node) bool {
			switch s := n.(type) {
			case *ast.AssignStmt:
				for _, l := range s.Lhs {
					if sel, ok := ast.Unparen(l).(*ast.SelectorExpr); ok {
						if fv, _ := info.ObjectOf(sel.Sel).(*types.Var); fv != nil && fv.IsField() {
							guarded[fv] = true
						}
					}
				}
			case *ast.BinaryExpr:
				if s.Op == token.EQL || s.Op == token.NEQ {
					if sel, ok := ast.Unparen(s.X).(*ast.SelectorExpr); ok && info.Types[ast.Unparen(s.Y)].IsNil() {
						if fv, _ := info.ObjectOf(sel.Sel).(*types.Var); fv != nil && fv.IsField() {
							guarded[fv] = true
						}
					}
				}
			}
			return true
		})
		ast.Inspect(fn.Decl.Body, func(n ast.Node) bool {
			var targets []ast.Expr
			switch s := n.(type) {
			case *ast.AssignStmt:
				targets = s.Lhs
			case *ast.IncDecStmt:
				targets = []ast.Expr{s.X}
			default:
				return true
			}
			for _, l := range targets {
				ix, ok := ast.Unparen(l).(*ast.IndexExpr)
				if !ok {
					continue
				}
				sel, ok := ast.Unparen(ix.X).(*ast.SelectorExpr)
				if !ok {
					continue
				}
				fv, _ := info.ObjectOf(sel.Sel).(*types.Var)
				if fv == nil || !fv.IsField() || guarded[fv] {
					continue
				}
				if _, isMap := fv.Type().Underlying().(*types.Map); !isMap {
					continue
				}
				// API objects are made by decoders the rule cannot see (C15.P6 covers their pointer fields)
				if owner := ownerOf(info, sel); owner != nil && owner.Obj().Pkg() != nil && strings.HasPrefix(owner.Obj().Pkg().Path(), modPath) && !strings.Contains(owner.Obj().Pkg().Path(), "/pkg/apis/") {
					out = append(out, mapFieldStore{fn, n, fv, owner})
				}
			}
			return true
		})
	}
	return out
}

// creationsLeavingNil lists the ways the module makes a value of type owner
// that leave map field f nil.
func creationsLeavingNil(p *Prog, owner *types.Named, f *types.Var) []string {
	var out []string
	// stores `<anything>.f = …` per function (a creation followed by such a store in the same function is fine)
	storesIn := map[*FuncInfo]bool{}
	for _, st := range p.StoresTo(nil, f) {
		if !st.InLit {
			storesIn[st.Fn] = true
		}
	}
	anyStoreInPkgInit := false
	for fn := range storesIn {
		if fn.Decl.Recv == nil && fn.Decl.Name.Name == "init" {
			anyStoreInPkgInit = true
		}
	}
	for _, fn := range p.AllFuncs() {
		if fn.Decl.Body == nil || p.excludedFile(fn.File) {
			continue
		}
		info := fn.Info()
		ast.Inspect(fn.Decl.Body, func(n ast.Node) bool {
			switch s := n.(type) {
			case *ast.CompositeLit:
				if derefNamed(info.TypeOf(s)) != owner {
					return true
				}
				has := false
				for _, e := range s.Elts {
					if kv, ok := e.(*ast.KeyValueExpr); ok {
						if id, ok := kv.Key.(*ast.Ident); ok && info.ObjectOf(id) == f && !info.Types[ast.Unparen(kv.Value)].IsNil() {
							has = true
						}
					}
				}
				if !has && !storesIn[fn] {
					out = append(out, "literal at "+p.Pos(s)+" ("+fn.Key()+")")
				}
			case *ast.CallExpr:
				if nc, ok := isBuiltinCall(info, s, "new"); ok && len(nc.Args) == 1 && derefNamed(info.TypeOf(nc.Args[0])) == owner && !storesIn[fn] {
					out = append(out, "new at "+p.Pos(s)+" ("+fn.Key()+")")
				}
			case *ast.ValueSpec:
				if len(s.Values) == 0 && s.Type != nil {
					if t := info.TypeOf(s.Type); t != nil {
						if nm, _ := types.Unalias(t).(*types.Named); nm == owner && !storesIn[fn] {
							out = append(out, "zero value at "+p.Pos(s)+" ("+fn.Key()+")")
						}
					}
				}
			}
			return true
		})
	}
	// package-level zero values
	for _, pk := range p.Roots {
		if len(pk.PkgPath) < len(modPath) || pk.PkgPath[:len(modPath)] != modPath {
			continue
		}
		for _, file := range pk.Syntax {
			if p.excludedFile(file) {
				continue
			}
			for _, d := range file.Decls {
				gd, ok := d.(*ast.GenDecl)
				if !ok || gd.Tok != token.VAR {
					continue
				}
				for _, sp := range gd.Specs {
					vs := sp.(*ast.ValueSpec)
					for i, nm := range vs.Names {
						o := pk.TypesInfo.Defs[nm]
						if o == nil {
							continue
						}
						nmd, _ := types.Unalias(o.Type()).(*types.Named)
						if nmd != owner {
							continue
						}
						zero := len(vs.Values) == 0
						if i < len(vs.Values) {
							if cl, ok := ast.Unparen(vs.Values[i]).(*ast.CompositeLit); ok {
								zero = true
								for _, e := range cl.Elts {
									if kv, ok := e.(*ast.KeyValueExpr); ok {
										if id, ok := kv.Key.(*ast.Ident); ok && pk.TypesInfo.ObjectOf(id) == f {
											zero = false
										}
									}
								}
							}
						}
						if !zero {
							continue
						}
						// someone assigns <var>.f
						assigned := false
						for _, st := range p.StoresTo(nil, f) {
							if sel, ok := st.LHS.(*ast.SelectorExpr); ok {
								if identObj(st.Fn.Info(), sel.X) == o {
									assigned = true
								}
							}
						}
						if !assigned {
							out = append(out, "package variable "+nm.Name+" at "+p.PosOf(nm.Pos())+" (never assigned ."+f.Name()+")")
						}
					}
				}
			}
		}
	}
	_ = anyStoreInPkgInit
	sort.Strings(out)
	return out
}

func ruleNilMapField(c *Ctx, rule string, fns []*FuncInfo) {
	p := c.P
	c.Rule(rule, "no store into a nil map field: for every x.f[k] = v on a struct of the module (not preceded in its function by an assignment or nil test of f), every way the module makes such a struct — composite literal, new, zero-value variable — sets f or is followed by an assignment of f")
	stores := nilMapStores(p, fns)
	type key struct {
		o *types.Named
		f *types.Var
	}
	done := map[key]bool{}
	n := 0
	for _, st := range stores {
		k := key{st.owner, st.field}
		if done[k] {
			continue
		}
		done[k] = true
		n++
		bad := creationsLeavingNil(p, st.owner, st.field)
		c.Check(len(bad) == 0, rule, st.owner.Obj().Name()+"."+st.field.Name()+" is never nil when stored into", p.Pos(st.node), st.fn.Key(),
			"every creation of "+st.owner.Obj().Name()+" initialises "+st.field.Name(), fmt.Sprintf("%v", bad))
	}
	c.Floor(rule, "map fields stored into", 1, n)
}

// ---- P9 ------------------------------------------------------------------

func ruleTypedNil(c *Ctx, rule string, fns []*FuncInfo) {
	p := c.P
	c.Rule(rule, "no typed nil in an interface: a pointer variable is not converted to an interface (returned as an interface result, or assigned to an interface variable that the function tests against nil) on a path along which it still holds its zero value (declared without a value, or assigned nil) — a later nil test on the interface would not see it")
	n := 0
	for _, fn := range fns {
		if fn.Decl.Body == nil {
			continue
		}
		info := fn.Info()
		sig := fn.Obj.Type().(*types.Signature)
		isIface := func(t types.Type) bool {
			if t == nil {
				return false
			}
			_, ok := t.Underlying().(*types.Interface)
			return ok
		}
		type conv struct {
			at   ast.Node // cfg-level statement
			x    ast.Expr
			to   types.Type
			what string
		}
		var convs []conv
		// interface variables the function tests against nil
		tested := map[types.Object]bool{}
		ast.Inspect(fn.Decl.Body, func(k ast.Node) bool {
			if be, ok := k.(*ast.BinaryExpr); ok && (be.Op == token.EQL || be.Op == token.NEQ) && info.Types[ast.Unparen(be.Y)].IsNil() {
				if o := identObj(info, be.X); o != nil {
					tested[o] = true
				}
			}
			return true
		})
		for _, r := range declReturns(fn.Decl.Body) {
			if len(r.Results) != sig.Results().Len() {
				continue
			}
			for i, x := range r.Results {
				if isIface(sig.Results().At(i).Type()) {
					convs = append(convs, conv{r, x, sig.Results().At(i).Type(), "returns"})
				}
			}
		}
		ast.Inspect(fn.Decl.Body, func(k ast.Node) bool {
			switch s := k.(type) {
			case *ast.FuncLit:
				return false
			case *ast.AssignStmt:
				if len(s.Lhs) == len(s.Rhs) {
					for i, l := range s.Lhs {
						if id, ok := ast.Unparen(l).(*ast.Ident); ok && id.Name == "_" {
							continue
						}
						if isIface(info.TypeOf(l)) && tested[identObj(info, l)] {
							convs = append(convs, conv{s, s.Rhs[i], info.TypeOf(l), "assigns"})
						}
					}
				}
			case *ast.ValueSpec:
				if len(s.Names) == len(s.Values) {
					for i, nm := range s.Names {
						if o := info.Defs[nm]; o != nil && isIface(o.Type()) && tested[o] {
							convs = append(convs, conv{s, s.Values[i], o.Type(), "assigns"})
						}
					}
				}
			}
			return true
		})
		for _, cv := range convs {
			id, ok := ast.Unparen(cv.x).(*ast.Ident)
			if !ok {
				continue
			}
			v, _ := info.ObjectOf(id).(*types.Var)
			if v == nil {
				continue
			}
			if _, isPtr := v.Type().Underlying().(*types.Pointer); !isPtr {
				continue
			}
			n++
			q := NewPathQuery(p, fn, nil)
			bad := ""
			for _, d := range varDefs(fn, v) {
				zero := false
				if d.rhs == nil {
					_, zero = d.node.(*ast.ValueSpec)
				} else if info.Types[ast.Unparen(d.rhs)].IsNil() {
					zero = true
				}
				if !zero {
					continue
				}
				def := d.node
				other := assignsVar(info, v)
				w := q.Escapes(isExactly(def), isExactly(cv.at), func(k ast.Node) bool { return !isExactly(def)(k) && other(k) }, nil)
				if w != nil {
					bad = "zero value from " + p.Pos(def) + " reaches the conversion: " + p.describePath(w)
				}
			}
			c.Check(bad == "", rule, fn.Name+": "+cv.what+" "+v.Name()+" as "+types.TypeString(cv.to, types.RelativeTo(fn.Pkg.Types))+" only when assigned", p.Pos(cv.at), fn.Key(),
				"the pointer was assigned a non-zero value on every path to this conversion", bad)
		}
	}
	c.Stats[rule+" sites"] = n
}

// ---- P10 -----------------------------------------------------------------

// ruleNoDeleteFromTotalMap: a map field with pointer (or interface) values that
// is read as if every looked-up key were present — `x.f[k].M()`, no comma-ok —
// is a table its readers treat as total. Nothing in the module deletes from
// such a field or stores nil into it: the reader would dereference nil.
func ruleNoDeleteFromTotalMap(c *Ctx, rule string) {
	p := c.P
	c.Rule(rule, "a map field whose lookups are dereferenced unchecked (x.f[k].M() without comma-ok) is never deleted from and never receives nil: the keys its readers rely on stay present")
	type use struct {
		fn   *FuncInfo
		node ast.Node
	}
	total := map[*types.Var]use{}
	for _, fn := range p.live() {
		if fn.Decl.Body == nil {
			continue
		}
		info := fn.Info()
		ast.Inspect(fn.Decl.Body, func(k ast.Node) bool {
			sel, ok := k.(*ast.SelectorExpr)
			if !ok {
				return true
			}
			ix, ok := ast.Unparen(sel.X).(*ast.IndexExpr)
			if !ok {
				return true
			}
			fsel, ok := ast.Unparen(ix.X).(*ast.SelectorExpr)
			if !ok {
				return true
			}
			fv, _ := info.ObjectOf(fsel.Sel).(*types.Var)
			if fv == nil || !fv.IsField() || fv.Pkg() == nil || !strings.HasPrefix(fv.Pkg().Path(), modPath) || strings.Contains(fv.Pkg().Path(), "/pkg/apis/") {
				return true
			}
			mt, isMap := fv.Type().Underlying().(*types.Map)
			if !isMap {
				return true
			}
			switch mt.Elem().Underlying().(type) {
			case *types.Pointer, *types.Interface:
			default:
				return true
			}
			if _, seen := total[fv]; !seen {
				total[fv] = use{fn, k}
			}
			return true
		})
	}
	var fields []*types.Var
	for f := range total {
		fields = append(fields, f)
	}
	sort.Slice(fields, func(i, j int) bool { return fields[i].Pos() < fields[j].Pos() })
	for _, f := range fields {
		var bad []string
		for _, fn := range p.AllFuncs() {
			if fn.Decl.Body == nil || p.excludedFile(fn.File) {
				continue
			}
			info := fn.Info()
			isField := func(x ast.Expr) bool {
				s, ok := ast.Unparen(x).(*ast.SelectorExpr)
				return ok && info.ObjectOf(s.Sel) == f
			}
			ast.Inspect(fn.Decl.Body, func(k ast.Node) bool {
				switch t := k.(type) {
				case *ast.CallExpr:
					if call, ok := isBuiltinCall(info, t, "delete"); ok && len(call.Args) == 2 && isField(call.Args[0]) {
						bad = append(bad, "delete at "+p.Pos(t)+" ("+fn.Key()+")")
					}
					if call, ok := isBuiltinCall(info, t, "clear"); ok && len(call.Args) == 1 && isField(call.Args[0]) {
						bad = append(bad, "clear at "+p.Pos(t)+" ("+fn.Key()+")")
					}
				case *ast.AssignStmt:
					for i, l := range t.Lhs {
						if ix, ok := ast.Unparen(l).(*ast.IndexExpr); ok && isField(ix.X) && len(t.Rhs) == len(t.Lhs) && info.Types[ast.Unparen(t.Rhs[i])].IsNil() {
							bad = append(bad, "nil stored at "+p.Pos(t)+" ("+fn.Key()+")")
						}
					}
				}
				return true
			})
		}
		u := total[f]
		c.Check(len(bad) == 0, rule, "entries of "+f.Name()+" (read unchecked in "+u.fn.Name+") are never removed", p.Pos(u.node), u.fn.Key(), "no delete / clear / nil store on the field", strings.Join(bad, "; "))
	}
	c.Stats[rule+" fields"] = len(fields)
}
