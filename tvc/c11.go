package main

// C11 — fixed IPs survive recreation; leak GC only reaps what is provably ours and stale.

import (
	"fmt"
	"go/ast"
	"go/constant"
	"go/token"
	"go/types"
	"sort"
	"strings"
)

func init() { registry["C11"] = c11 }

func c11(c *Ctx) {
	if c.P.Pkg(podCtlPkg) == nil || c.P.Pkg(podENICtlPkg) == nil {
		c.Unres("C11", podCtlPkg+" / "+podENICtlPkg, "package not loaded")
		return
	}
	c11R1(c)
	c11R2(c)
	c11R3(c)
	rulePodRequiresRecord(c, "C11.R4")
	ruleFixedNamePod(c, "C18.R6")
	ruleSandboxExited(c, "C10.R9")
	ruleAnyFixedParks(c, "C11.R5")
	c11R6(c)
	c11R7(c)
	c11R9(c)
	// the webhook derives each requested network's entry (allocation type, release strategy) on its own:
	// a record's retention policy is the one its network asked for
	itemIndependent(c, "C11.R8", [][3]string{{"pkg/controller/webhook", "getPodNetworkRequests", "one network entry (with its own allocation type) per requested network"}})
	// shared: the collector's verdict is published with the optimistic lock (C10.R7 / C10.R8) — a
	// record rebound meanwhile is not reaped on a stale reading
	c10R7(c)
	ruleCASPublication(c, "C10.R8", "PodENI", map[string]string{
		"Status.PodLastSeen": "a timestamp; the latest writer winning is the intent",
		"Labels":             "node label follows the pod; no transition is decided on it",
	})
}

func c11R1(c *Ctx) {
	p := c.P
	c.Rule("C11.R1", "record GC: the keep flag is monotone (assigned true, or false only on the single expiry path: Fixed ∧ TTL ∧ duration parsed ∧ duration ≥ 0 ∧ lastSeen+duration not after now ∧ no other allocation asked to keep); the record is marked Deleting only under ¬keep, outside the transient phases, for an absent / no-longer-eligible pod; PodLastSeen is written only on bind and by the pod-present refresh")
	fn := p.Func(podENICtlPkg, "ReconcilePodENI.gcCRPodENIs")
	if fn == nil {
		c.Unres("C11.R1", "gcCRPodENIs", "not found")
		return
	}
	info := fn.Info()
	// the keep flag: the bool local tested right before the Deleting store
	var keep types.Object
	for _, ps := range phaseStores(c) {
		if ps.st.Fn != fn || ps.to != "Deleting" {
			continue
		}
		// candidates: bool locals assigned inside a range over Spec.Allocations
		ast.Inspect(fn.Decl.Body, func(nd ast.Node) bool {
			rs, ok := nd.(*ast.RangeStmt)
			if !ok {
				return true
			}
			if fv := fieldOf(info, rs.X); fv == nil || fv.Name() != "Allocations" {
				return true
			}
			ast.Inspect(rs.Body, func(k ast.Node) bool {
				if as, ok := k.(*ast.AssignStmt); ok && len(as.Lhs) == 1 {
					if o := identObj(info, as.Lhs[0]); o != nil {
						if b, ok := o.Type().Underlying().(*types.Basic); ok && b.Kind() == types.Bool && keep == nil {
							keep = o
						}
					}
				}
				return true
			})
			return true
		})
		if keep == nil {
			c.Undec("C11.R1", "keep flag", p.Pos(ps.st.Node), fn.Key(), "", "no bool local assigned in the allocation loop")
			return
		}
		c.Require("C11.R1", "record marked Deleting only when nothing asked to keep it", fn, ps.st.Node, "!"+keep.Name(), nil)
		c.Require("C11.R1", "record marked Deleting only outside transient phases", fn, ps.st.Node,
			fmt.Sprintf("podENI.Status.Phase != %s && podENI.Status.Phase != %s && podENI.Status.Phase != %s", constLit(p, apiPkg, "ENIPhaseDetaching"), constLit(p, apiPkg, "ENIPhaseDeleting"), constLit(p, apiPkg, "ENIPhaseBinding")), nil)
	}
	if keep == nil {
		c.Unres("C11.R1", "Deleting store in gcCRPodENIs", "not found")
		return
	}
	// every assignment of keep
	fixed := constLit(p, apiPkg, "IPAllocTypeFixed")
	ttl := constLit(p, apiPkg, "ReleaseStrategyTTL")
	nFalse, nTrue := 0, 0
	for _, d := range varDefs(fn, keep) {
		if d.tok == token.DEFINE {
			ok := d.rhs != nil && info.Types[d.rhs].Value != nil && !constant.BoolVal(info.Types[d.rhs].Value)
			c.Check(ok, "C11.R1", "keep starts false for every record", p.Pos(d.node), fn.Key(), "keep := false", exprString2(d.node))
			// defined inside the per-record scope (not shared between records)
			inRec := false
			for _, nd := range pathTo(fn.Decl.Body, d.node) {
				if rs, ok := nd.(*ast.RangeStmt); ok {
					if strings.HasSuffix(exprString(rs.X), ".Items") {
						inRec = true
					}
				}
			}
			c.Check(inRec, "C11.R1", "keep is per record", p.Pos(d.node), fn.Key(), "declared inside the loop over PodENI items", "declared outside")
			continue
		}
		if d.rhs == nil || info.Types[d.rhs].Value == nil {
			// keep = keep || x is monotone
			if be, ok := ast.Unparen(d.rhs).(*ast.BinaryExpr); ok && be.Op == token.LOR && (identObj(info, be.X) == keep || identObj(info, be.Y) == keep) {
				nTrue++
				c.OK("C11.R1", "keep assignment is monotone (keep || …)", p.Pos(d.node), fn.Key(), "keep = keep || x")
				continue
			}
			c.Bad("C11.R1", "keep assigned a computed value", p.Pos(d.node), fn.Key(), "keep is assigned true, keep || x, or false on the expiry path", "assignment "+exprString2(d.node)+" can overwrite an earlier allocation's wish to keep the record")
			continue
		}
		if constant.BoolVal(info.Types[d.rhs].Value) {
			nTrue++
			c.OK("C11.R1", "keep = true", p.Pos(d.node), fn.Key(), "monotone")
			continue
		}
		nFalse++
		// the allocation variable of the enclosing range
		alloc := "alloc"
		for _, nd := range pathTo(fn.Decl.Body, d.node) {
			if rs, ok := nd.(*ast.RangeStmt); ok && rs.Value != nil {
				if fv := fieldOf(info, rs.X); fv != nil && fv.Name() == "Allocations" {
					alloc = exprString(rs.Value)
				}
			}
		}
		// the duration parse and the expiry comparison as they occur in the code
		var parse *ast.AssignStmt
		var afterExpr *ast.CallExpr
		ast.Inspect(fn.Decl.Body, func(k ast.Node) bool {
			if a2, ok := k.(*ast.AssignStmt); ok && len(a2.Rhs) == 1 && len(a2.Lhs) == 2 && strings.HasPrefix(exprString(a2.Rhs[0]), "time.ParseDuration(") && strings.Contains(derefString(fn, a2.Rhs[0]), ".ReleaseAfter") {
				parse = a2
			}
			return true
		})
		if parse != nil {
			durObj := identObj(info, parse.Lhs[0])
			ast.Inspect(fn.Decl.Body, func(k ast.Node) bool {
				call, ok := k.(*ast.CallExpr)
				if !ok {
					return true
				}
				sel, ok := ast.Unparen(call.Fun).(*ast.SelectorExpr)
				if !ok || sel.Sel.Name != "After" || len(call.Args) != 1 {
					return true
				}
				if add, ok := ast.Unparen(sel.X).(*ast.CallExpr); ok && len(add.Args) == 1 && identObj(info, add.Args[0]) == durObj {
					if as2, ok := ast.Unparen(add.Fun).(*ast.SelectorExpr); ok && as2.Sel.Name == "Add" && strings.HasSuffix(derefString(fn, as2.X), ".PodLastSeen") {
						afterExpr = call
					}
				}
				return true
			})
		}
		if parse == nil || afterExpr == nil {
			c.Undec("C11.R1", "keep = false only on the expiry path", p.Pos(d.node), fn.Key(), "", "ReleaseAfter parse / lastSeen.Add(duration).After(now) comparison not found")
			continue
		}
		dn, en := exprString(parse.Lhs[0]), exprString(parse.Lhs[1])
		c.RequireF("C11.R1", "keep = false only on the expiry path", fn, d.node,
			fmt.Sprintf(`%[1]s.AllocationType.Type == %[2]s && %[1]s.AllocationType.ReleaseStrategy == %[3]s && parse error == nil && !(duration < 0) && !%[4]s && !%[5]s`, alloc, fixed, ttl, exprString(afterExpr), keep.Name()),
			func(fe *FactEngine) (*Formula, error) {
				strat, err := fe.Expr(fmt.Sprintf(`%[1]s.AllocationType.Type == %[2]s && %[1]s.AllocationType.ReleaseStrategy == %[3]s`, alloc, fixed, ttl), d.node.Pos())
				if err != nil {
					return nil, err
				}
				parsed, err := fe.Expr(fmt.Sprintf(`%s == nil && !(%s < 0)`, en, dn), parse.End())
				if err != nil {
					return nil, err
				}
				return mkAnd(mkAnd(strat, parsed), mkAnd(mkNot(fe.Cond(afterExpr)), mkNot(fe.Cond(identFor(info, keep))))), nil
			})
	}
	c.Floor("C11.R1", "keep = true assignments", 2, nTrue)
	c.Check(nFalse <= 1, "C11.R1", "single expiry path", p.Pos(fn.Decl), fn.Key(), "at most one keep = false", fmt.Sprintf("%d", nFalse))
	// 'now' and 'duration' are what they seem: now := time.Now(), duration := ParseDuration(ReleaseAfter)
	okNow, okDur := afterComparesWithNow(fn), false
	ast.Inspect(fn.Decl.Body, func(nd ast.Node) bool {
		if as, ok := nd.(*ast.AssignStmt); ok && as.Tok == token.DEFINE && len(as.Rhs) == 1 {
			src := exprString(as.Rhs[0])
			if len(as.Lhs) == 2 && strings.HasPrefix(src, "time.ParseDuration(") && strings.Contains(derefString(fn, as.Rhs[0]), ".ReleaseAfter") {
				okDur = true
			}
		}
		return true
	})
	c.Check(okNow && okDur, "C11.R1", "expiry compares lastSeen + ReleaseAfter with the current time", p.Pos(fn.Decl), fn.Key(), "now := time.Now(); duration, err := time.ParseDuration(alloc.AllocationType.ReleaseAfter)", fmt.Sprintf("now=%v duration=%v", okNow, okDur))
	// non-TTL/Never strategies keep (default arm)
	okDefault := false
	ast.Inspect(fn.Decl.Body, func(nd ast.Node) bool {
		if sw, ok := nd.(*ast.SwitchStmt); ok && sw.Tag != nil && strings.HasSuffix(exprString(sw.Tag), ".ReleaseStrategy") {
			for _, cl := range sw.Body.List {
				cc := cl.(*ast.CaseClause)
				if cc.List == nil {
					for _, s := range cc.Body {
						if as, ok := s.(*ast.AssignStmt); ok && identObj(info, as.Lhs[0]) == keep && info.Types[as.Rhs[0]].Value != nil && constant.BoolVal(info.Types[as.Rhs[0]].Value) {
							okDefault = true
						}
					}
				}
			}
		}
		return true
	})
	c.Check(okDefault, "C11.R1", "unknown release strategies keep the record", p.Pos(fn.Decl), fn.Key(), "default: keep = true", "not found")
	// PodLastSeen writers
	ls := p.Field(apiPkg, "PodENIStatus", "PodLastSeen")
	st := p.StoresTo(nil, ls)
	c.WhoMay("C11.R1", "write PodLastSeen", groupStores(st), map[string]string{
		podENICtlPkg + ".ReconcilePodENI.podENICreate": "on bind",
		podENICtlPkg + ".ReconcilePodENI.gcCRPodENIs":  "refresh while the pod exists",
		podENICtlPkg + ".updateFunc":                   "event predicate: normalises throw-away deep copies for comparison, never written back (checked: no API write in the function)",
	})
	c.Floor("C11.R1", "PodLastSeen stores", 2, len(st))
	for _, s := range st {
		if s.Fn.Name == "updateFunc" {
			writes := 0
			for _, cs := range p.CallsIn(s.Fn) {
				if cs.Callee != nil && (cs.Callee.Name() == "Update" || cs.Callee.Name() == "Patch" || cs.Callee.Name() == "Create") {
					writes++
				}
			}
			base := identObj(s.Fn.Info(), s.LHS.(*ast.SelectorExpr).X.(*ast.SelectorExpr).X)
			isCopy := false
			if base != nil {
				for _, d := range varDefs(s.Fn, base) {
					if d.rhs != nil && strings.HasSuffix(exprString(d.rhs), ".DeepCopy()") {
						isCopy = true
					}
				}
			}
			c.Check(writes == 0 && isCopy, "C11.R1", "updateFunc only touches throw-away copies", p.Pos(s.Node), s.Fn.Key(), "target is a DeepCopy and the function performs no API write", fmt.Sprintf("writes=%d copy=%v", writes, isCopy))
			continue
		}
		c.Check(s.RHS != nil && exprString(s.RHS) == "metav1.Now()", "C11.R1", "PodLastSeen set to the current time in "+s.Fn.Name, p.Pos(s.Node), s.Fn.Key(), "= metav1.Now()", exprString2(s.Node))
		if s.Fn.Name == "ReconcilePodENI.podENICreate" {
			// every bind of a fixed-IP record restarts the clock: the retention time of a record whose pod
			// came back and left again counts from the last time the controller saw the pod, not the first
			var scope *ast.BlockStmt
			phaseF := p.Field(apiPkg, "PodENIStatus", "Phase")
			bindC := p.LookupObj(apiPkg, "ENIPhaseBind")
			for _, ps := range p.StoresTo([]*FuncInfo{s.Fn}, phaseF) {
				if ps.RHS == nil || identObjSel(s.Fn.Info(), ps.RHS) != bindC {
					continue
				}
				// the statements from the phase store to the end of its list (block or case body)
				for _, k := range pathTo(s.Fn.Decl.Body, ps.Node) {
					var list []ast.Stmt
					switch b := k.(type) {
					case *ast.BlockStmt:
						list = b.List
					case *ast.CaseClause:
						list = b.Body
					}
					for i, st := range list {
						if st.Pos() <= ps.Node.Pos() && ps.Node.End() <= st.End() && list[len(list)-1].End() >= s.Node.End() {
							scope = &ast.BlockStmt{Lbrace: st.Pos() - 1, List: list[i:], Rbrace: list[len(list)-1].End()}
						}
					}
				}
			}
			key := "podENICreate: every bind of a fixed-IP record stamps PodLastSeen"
			if sel, ok := s.LHS.(*ast.SelectorExpr); ok && scope != nil {
				if st, ok := sel.X.(*ast.SelectorExpr); ok {
					c.RequireReached("C11.R1", key, s.Fn, scope, s.Node, exprString(st.X)+".Spec.HaveFixedIP()", nil)
				} else {
					c.Undec("C11.R1", key, p.Pos(s.Node), s.Fn.Key(), "<record>.Status.PodLastSeen = …", "store shape not recognised")
				}
			} else {
				c.Undec("C11.R1", key, p.Pos(s.Node), s.Fn.Key(), "<record>.Status.Phase = Bind and the PodLastSeen stamp in one block", "not recognised")
			}
		}
		if s.Fn == fn {
			p.Func(podENICtlPkg, "ReconcilePodENI.podRequirePodENI") // anchor: the requirement names the predicate
			if errName, pred := podGetAndPredicate(p, fn); pred != "" {
				c.Require("C11.R1", "PodLastSeen refreshed only while the pod exists and needs the record", fn, s.Node, errName+" == nil && "+pred, nil)
			} else {
				c.Undec("C11.R1", "PodLastSeen refreshed only while the pod exists and needs the record", p.Pos(s.Node), fn.Key(), "the pod's Get and the podRequirePodENI test", "not recognised")
			}
		}
	}
}

func c11R2(c *Ctx) {
	p := c.P
	c.Rule("C11.R2", "a recreated fixed-IP pod gets the recorded interface back: interfaces are created only when no PodENI record exists; rebinding (reConfig) makes no cloud call and re-attachment iterates the stored allocations")
	pc := p.Func(podCtlPkg, "ReconcilePod.podCreate")
	create := p.Func(podCtlPkg, "ReconcilePod.createENI")
	reconf := p.Func(podCtlPkg, "ReconcilePod.reConfig")
	if pc == nil || create == nil || reconf == nil {
		c.Unres("C11.R2", "podCreate / createENI / reConfig", "not found")
		return
	}
	// who creates interfaces in the pod controller
	var sites []CallSite
	for _, fn := range p.FuncsInPkg(podCtlPkg) {
		for _, cs := range p.CallsIn(fn) {
			if cs.Callee != nil && cs.Callee.Name() == "CreateNetworkInterface" {
				sites = append(sites, cs)
			}
		}
	}
	c.WhoMay("C11.R2", "create an interface for a pod", groupCalls(sites), map[string]string{podCtlPkg + ".ReconcilePod.createENI": "first creation"})
	c.Floor("C11.R2", "CreateNetworkInterface call sites in the pod controller", 1, len(sites))
	p.buildCallers()
	cs := funcKeys(p.callers[create.Obj])
	c.Check(len(cs) == 1 && cs[0] == pc.Key(), "C11.R2", "createENI reached only from podCreate", p.Pos(create.Decl), create.Key(), "callers = {podCreate}", strings.Join(cs, ","))
	// in podCreate: createENI only when the record Get failed
	info := pc.Info()
	var getErr types.Object
	for _, call := range p.CallsIn(pc) {
		if call.Callee != nil && call.Callee.Name() == "Get" && call.Lit == nil && len(call.Call.Args) == 3 && typeIs(info.TypeOf(call.Call.Args[2]), modPath+"/"+apiPkg, "PodENI") {
			_, lhs := assignedFromCall(pc, call.Call)
			if len(lhs) == 1 {
				getErr = lhs[0]
			}
			for _, cc := range p.CallsTo([]*FuncInfo{pc}, create.Obj) {
				// path from the Get with err == nil to createENI must not exist
				q := NewPathQuery(p, pc, nil)
				fe := NewFactEngine(p, pc)
				q.Prune = func(cond ast.Expr, takeTrue bool) bool {
					if getErr == nil {
						return false
					}
					v, known := eval3(fe.Cond(cond), map[string]bool{"eq(" + objID(getErr) + ",nil)": true})
					return known && v != takeTrue
				}
				// stop at the next assignment of err (the fact no longer applies)
				w := q.Escapes(isExactly(call.Call), isExactly(cc.Call), func(nd ast.Node) bool {
					return getErr != nil && nd.Pos() > call.Call.End() && assignsVar(info, getErr)(nd)
				}, nil)
				c.Check(w == nil, "C11.R2", "interfaces are created only when no record exists", p.Pos(cc.Call), pc.Key(), "every path on which Get(PodENI) succeeded returns before createENI", "path: "+p.describePath(w))
			}
		}
	}
	c.Check(getErr != nil, "C11.R2", "podCreate looks the record up first", p.Pos(pc.Decl), pc.Key(), "err = client.Get(…, prePodENI)", "lookup not found")
	// reConfig makes no cloud call
	cloud := 0
	for _, call := range p.CallsIn(reconf) {
		if call.Callee != nil {
			if sig := call.Callee.Type().(*types.Signature); sig.Recv() != nil && typeIs(sig.Recv().Type(), modPath+"/pkg/controller", "Interface") {
				cloud++
			}
		}
	}
	c.Check(cloud == 0, "C11.R2", "reConfig makes no cloud call", p.Pos(reconf.Decl), reconf.Key(), "rebinding keeps the recorded interfaces", fmt.Sprintf("%d cloud calls", cloud))
	// reConfig is reached for an Unbind record (facts at the call site)
	for _, call := range p.CallsTo([]*FuncInfo{pc}, reconf.Obj) {
		rec := argByNamedType(info, call.Call, "PodENI") // the record argument, wherever it stands
		if rec == nil {
			c.Undec("C11.R2", "rebinding starts from an unbound record", p.Pos(call.Call), pc.Key(), "reConfig(…, <record>, …)", "no single *PodENI argument")
			continue
		}
		c.Require("C11.R2", "rebinding starts from an unbound record", pc, call.Call, exprString(rec)+".Status.Phase == "+constLit(p, apiPkg, "ENIPhaseUnbind"), nil)
	}
	// attachENI iterates the stored allocations and attaches their recorded ids
	att := p.Func(podENICtlPkg, "ReconcilePodENI.attachENI")
	if att == nil {
		c.Unres("C11.R2", "attachENI", "not found")
		return
	}
	ainfo := att.Info()
	okIter, okID := false, false
	ast.Inspect(att.Decl.Body, func(nd ast.Node) bool {
		if rs, ok := nd.(*ast.RangeStmt); ok {
			if fv := fieldOf(ainfo, rs.X); fv != nil && fv.Name() == "Allocations" {
				okIter = true
			}
		}
		if kv, ok := nd.(*ast.KeyValueExpr); ok && exprString(kv.Key) == "NetworkInterfaceID" && strings.HasSuffix(exprString(kv.Value), "alloc.ENI.ID") {
			okID = true
		}
		return true
	})
	c.Check(okIter && okID, "C11.R2", "re-attachment uses the recorded interface ids", p.Pos(att.Decl), att.Key(), "for i := range podENI.Spec.Allocations { Attach(NetworkInterfaceID: &alloc.ENI.ID) }", fmt.Sprintf("iter=%v id=%v", okIter, okID))
	// a record that is not fixed is not re-attached for a new pod
	pe := p.Func(podENICtlPkg, "ReconcilePodENI.podENICreate")
	if pe != nil {
		for _, call := range p.CallsTo([]*FuncInfo{pe}, att.Obj) {
			// stated on the record and the pod, whatever the code calls its flag: the record is fresh
			// (phase "") or the pod has a stable name (the per-allocation Fixed test is an existential
			// over the allocations and is not decided)
			var podX, recX string
			for _, a := range call.Call.Args {
				t := pe.Info().TypeOf(a)
				if typeIs(t, "k8s.io/api/core/v1", "Pod") {
					podX = exprString(a)
				}
				if typeIs(t, modPath+"/"+apiPkg, "PodENI") {
					recX = exprString(a)
				}
			}
			if podX == "" || recX == "" {
				// the record is the handler's *PodENI parameter; the pod is the *corev1.Pod variable
				// the handler hands to the predicates it consults before attaching
				podX, recX = "", ""
				for _, f := range pe.Decl.Type.Params.List {
					for _, n := range f.Names {
						if typeIs(pe.Info().TypeOf(f.Type), modPath+"/"+apiPkg, "PodENI") {
							recX = n.Name
						}
					}
				}
				for _, cs := range p.CallsIn(pe) {
					if cs.Call.Pos() > call.Call.Pos() {
						continue
					}
					for _, a := range cs.Call.Args {
						if id, ok := ast.Unparen(a).(*ast.Ident); ok && typeIs(pe.Info().TypeOf(a), "k8s.io/api/core/v1", "Pod") {
							podX = id.Name
						}
					}
				}
			}
			if podX == "" || recX == "" {
				c.Undec("C11.R2", "attach only for a first bind or a fixed-IP rebind", p.Pos(call.Call), pe.Key(), "", "pod / record expressions not found")
				continue
			}
			c.Require("C11.R2", "attach only for a first bind or a fixed-IP rebind", pe, call.Call, recX+`.Status.Phase == "" || utils.IsFixedNamePod(`+podX+`)`, nil)
		}
	}
}

func c11R3(c *Ctx) {
	p := c.P
	c.Rule("C11.R3", "leak collector: only interfaces that pass the tag filter (exactly cluster id + controller creator tag, every key present with an equal value), are at least ten minutes old and are referenced by no PodENI record are detached / deleted; a failed record list aborts before anything is reaped")
	fn := p.Func(podENICtlPkg, "ReconcilePodENI.gcENIs")
	filter := p.Func(podENICtlPkg, "ReconcilePodENI.eniFilter")
	if fn == nil || filter == nil {
		c.Unres("C11.R3", "gcENIs / eniFilter", "not found")
		return
	}
	info := fn.Info()
	// candidate map: the map ranged by the loop that contains the cloud calls
	var reapLoop *ast.RangeStmt
	var cloudCalls []*ast.CallExpr
	for _, cs := range p.CallsIn(fn) {
		if cs.Callee != nil && (cs.Callee.Name() == "DetachNetworkInterface" || cs.Callee.Name() == "DeleteNetworkInterface") {
			cloudCalls = append(cloudCalls, cs.Call)
			for _, nd := range pathTo(fn.Decl.Body, cs.Call) {
				if rs, ok := nd.(*ast.RangeStmt); ok {
					reapLoop = rs
				}
			}
		}
	}
	c.Floor("C11.R3", "cloud calls in gcENIs", 2, len(cloudCalls))
	if reapLoop == nil || reapLoop.Value == nil {
		c.Undec("C11.R3", "reaping loop", p.Pos(fn.Decl), fn.Key(), "", "cloud calls are not inside a range with a value variable")
		return
	}
	cand := identObj(info, reapLoop.X)
	if cand == nil {
		c.Undec("C11.R3", "candidate map", p.Pos(reapLoop), fn.Key(), "", "range source is not a local")
		return
	}
	v := exprString(reapLoop.Value)
	for _, call := range cloudCalls {
		ok := strings.HasPrefix(exprString(call.Args[1]), v+".")
		c.Check(ok, "C11.R3", calleeName(info, call)+" targets a candidate", p.Pos(call), fn.Key(), "id = "+v+".NetworkInterfaceID", exprString(call.Args[1]))
	}
	// insertions into the candidate map
	nIns := 0
	ast.Inspect(fn.Decl.Body, func(nd ast.Node) bool {
		as, ok := nd.(*ast.AssignStmt)
		if !ok || len(as.Lhs) != 1 {
			return true
		}
		ix, ok := ast.Unparen(as.Lhs[0]).(*ast.IndexExpr)
		if !ok || identObj(info, ix.X) != cand {
			return true
		}
		nIns++
		// enclosing range over the input list
		var rs *ast.RangeStmt
		for _, k := range pathTo(fn.Decl.Body, as) {
			if r, ok := k.(*ast.RangeStmt); ok {
				rs = r
			}
		}
		if rs == nil || rs.Value == nil {
			c.Undec("C11.R3", "candidate insertion", p.Pos(as), fn.Key(), "", "not inside a range")
			return true
		}
		e := exprString(rs.Value)
		// the tag filter call, the creation-time parse and the age test, as they occur in the code
		var filterCall *ast.CallExpr
		var tObj, errObj types.Object
		var afterExpr *ast.CallExpr
		ast.Inspect(fn.Decl.Body, func(k ast.Node) bool {
			if call, ok := k.(*ast.CallExpr); ok && Callee(info, call) == filter.Obj && len(call.Args) == 2 {
				filterCall = call
			}
			if a2, ok := k.(*ast.AssignStmt); ok && len(a2.Rhs) == 1 && len(a2.Lhs) == 2 && strings.HasPrefix(exprString(a2.Rhs[0]), "time.Parse(") && strings.Contains(derefString(fn, a2.Rhs[0]), ".CreationTime") {
				tObj, errObj = identObj(info, a2.Lhs[0]), identObj(info, a2.Lhs[1])
			}
			return true
		})
		ast.Inspect(fn.Decl.Body, func(k ast.Node) bool {
			call, ok := k.(*ast.CallExpr)
			if !ok || tObj == nil {
				return true
			}
			sel, ok := ast.Unparen(call.Fun).(*ast.SelectorExpr)
			if !ok || sel.Sel.Name != "After" || len(call.Args) != 1 {
				return true
			}
			if add, ok := ast.Unparen(sel.X).(*ast.CallExpr); ok {
				if as2, ok := ast.Unparen(add.Fun).(*ast.SelectorExpr); ok && as2.Sel.Name == "Add" && identObj(info, as2.X) == tObj {
					afterExpr = call
				}
			}
			return true
		})
		if filterCall == nil || tObj == nil || errObj == nil || afterExpr == nil {
			c.Undec("C11.R3", "candidate insertion guards", p.Pos(as), fn.Key(), "", "tag filter call / creation-time parse / age test not found")
			return true
		}
		c.RequireF("C11.R3", "candidate only if tagged as ours, parsable age and older than the grace period", fn, as,
			fmt.Sprintf("m.eniFilter(%s, tags) && parse error == nil && !%s", e, exprString(afterExpr)), func(fe *FactEngine) (*Formula, error) {
				errNil := fe.eqAtom(objID(errObj), "nil", []string{objID(errObj)})
				return mkAnd(fe.Cond(filterCall), mkAnd(errNil, mkNot(fe.Cond(afterExpr)))), nil
			})
		// key is the interface's own id and the value is that interface
		okKV := exprString(ix.Index) == e+".NetworkInterfaceID"
		c.Check(okKV, "C11.R3", "candidate keyed by its own id", p.Pos(as), fn.Key(), "eniMap["+e+".NetworkInterfaceID] = <that interface>", exprString(ix.Index))
		return true
	})
	c.Floor("C11.R3", "candidate insertions", 1, nIns)
	// grace period constant ≥ 10 min (E7)
	okGrace := false
	ast.Inspect(fn.Decl.Body, func(nd ast.Node) bool {
		if call, ok := nd.(*ast.CallExpr); ok {
			if sel, ok := ast.Unparen(call.Fun).(*ast.SelectorExpr); ok && sel.Sel.Name == "Add" && len(call.Args) == 1 {
				if tv := info.Types[call.Args[0]]; tv.Value != nil {
					if d, ok := constant.Int64Val(constant.ToInt(tv.Value)); ok && d >= int64(10*60*1e9) {
						okGrace = true
					}
				}
			}
		}
		return true
	})
	c.Check(okGrace, "C11.R3", "grace period is at least ten minutes", p.Pos(fn.Decl), fn.Key(), "created.Add(G) with constant G ≥ 10m", "no such constant")
	// the time the age is compared with is the current time (whatever the variable is called)
	okNow := afterComparesWithNow(fn)
	c.Check(okNow, "C11.R3", "age is measured against the current time", p.Pos(fn.Decl), fn.Key(), "now := time.Now()", "not found")
	// tag filter literal
	okTags := false
	var tagKeys []string
	ast.Inspect(fn.Decl.Body, func(nd ast.Node) bool {
		cl, ok := nd.(*ast.CompositeLit)
		if !ok {
			return true
		}
		if mt, ok := info.TypeOf(cl).Underlying().(*types.Map); !ok || mt.Key().String() != "string" {
			return true
		}
		tagKeys = nil
		vals := map[string]string{}
		for _, el := range cl.Elts {
			if kv, ok := el.(*ast.KeyValueExpr); ok {
				if o := identObjSel(info, kv.Key); o != nil {
					tagKeys = append(tagKeys, o.Name())
					vals[o.Name()] = exprString(kv.Value)
				}
			}
		}
		sort.Strings(tagKeys)
		if len(tagKeys) == 2 && tagKeys[0] == "NetworkInterfaceTagCreatorKey" && tagKeys[1] == "TagKeyClusterID" &&
			strings.HasSuffix(vals["NetworkInterfaceTagCreatorKey"], "TagTerwayController") && strings.HasSuffix(vals["TagKeyClusterID"], ".ClusterID") {
			okTags = true
		}
		return true
	})
	c.Check(okTags, "C11.R3", "tag filter = {cluster id: this cluster, creator: terway controller}", p.Pos(fn.Decl), fn.Key(), "exactly these two keys with these values", strings.Join(tagKeys, ","))
	// the same tags are put on every interface the controller creates
	if create := p.Func(podCtlPkg, "ReconcilePod.createENI"); create != nil {
		okCreate := false
		ast.Inspect(create.Decl.Body, func(nd ast.Node) bool {
			if kv, ok := nd.(*ast.KeyValueExpr); ok && exprString(kv.Key) == "Tags" {
				s := ""
				ast.Inspect(kv.Value, func(k ast.Node) bool {
					if o := identObjSelNode(create.Info(), k); o != nil {
						s += o.Name() + " "
					}
					return true
				})
				if strings.Contains(s, "TagKeyClusterID") && strings.Contains(s, "NetworkInterfaceTagCreatorKey") && strings.Contains(s, "TagTerwayController") {
					okCreate = true
				}
			}
			return true
		})
		c.Check(okCreate, "C11.R3", "created interfaces carry the tags the collector filters on", p.Pos(create.Decl), create.Key(), "Tags: {TagKeyClusterID: clusterID, NetworkInterfaceTagCreatorKey: TagTerwayController}", "not found")
	}
	// referenced ids are removed before the reaping loop; a list error returns first
	var list *ast.CallExpr
	for _, cs := range p.CallsIn(fn) {
		if cs.Callee != nil && cs.Callee.Name() == "List" {
			list = cs.Call
		}
	}
	var unref *ast.CallExpr
	ast.Inspect(fn.Decl.Body, func(nd ast.Node) bool {
		if call, ok := nd.(*ast.CallExpr); ok {
			if id, ok := call.Fun.(*ast.Ident); ok && id.Name == "delete" && len(call.Args) == 2 && identObj(info, call.Args[0]) == cand {
				unref = call
			}
		}
		return true
	})
	if list == nil || unref == nil {
		c.Bad("C11.R3", "referenced interfaces are removed from the candidates", p.Pos(fn.Decl), fn.Key(), "List(PodENIs); delete(eniMap, alloc.ENI.ID)", fmt.Sprintf("list=%v delete=%v", list != nil, unref != nil))
		return
	}
	q := NewPathQuery(p, fn, nil)
	for _, call := range cloudCalls {
		w := q.Escapes(nil, isExactly(call), isExactly(list), nil)
		c.Check(w == nil, "C11.R3", calleeName(info, call)+" only after the records were listed", p.Pos(call), fn.Key(), "must-pass: client.List(PodENIs) → reap", "path: "+p.describePath(w))
	}
	_, lhs := assignedFromCall(fn, list)
	okAbort := false
	if len(lhs) == 1 && lhs[0] != nil {
		if arm := errArm(fn, lhs[0], list.End()); arm != nil && arm.Pos() < reapLoop.Pos() && len(arm.Body.List) > 0 {
			_, okAbort = arm.Body.List[len(arm.Body.List)-1].(*ast.ReturnStmt)
		}
	}
	c.Check(okAbort, "C11.R3", "a failed record list aborts the collection", p.Pos(list), fn.Key(), "if err != nil { return err } before reaping", "not recognised")
	// the un-reference loop covers every allocation of every record and keys by the allocation's interface id
	okCover := false
	var loops []*ast.RangeStmt
	for _, nd := range pathTo(fn.Decl.Body, unref) {
		if rs, ok := nd.(*ast.RangeStmt); ok {
			loops = append(loops, rs)
		}
	}
	if len(loops) == 2 && strings.HasSuffix(exprString(loops[0].X), ".Items") {
		if fv := fieldOf(info, loops[1].X); fv != nil && fv.Name() == "Allocations" && strings.HasSuffix(exprString(unref.Args[1]), ".ENI.ID") {
			hasBreak := false
			ast.Inspect(loops[0], func(k ast.Node) bool {
				if b, ok := k.(*ast.BranchStmt); ok && (b.Tok == token.BREAK || b.Tok == token.GOTO) {
					hasBreak = true
				}
				if _, ok := k.(*ast.ReturnStmt); ok {
					hasBreak = true
				}
				return true
			})
			okCover = !hasBreak && loops[0].End() < reapLoop.Pos()
		}
	}
	c.Check(okCover, "C11.R3", "every allocation of every record is un-referenced before reaping", p.Pos(unref), fn.Key(), "for each item, for each alloc: delete(eniMap, alloc.ENI.ID) — no early exit, before the reaping loop", "not recognised")

	// eniFilter: true only when every filter key is found with an equal value
	finfo := filter.Info()
	filterParam := finfo.Defs[filter.Decl.Type.Params.List[1].Names[0]]
	var outer *ast.RangeStmt
	for _, s := range filter.Decl.Body.List {
		if rs, ok := s.(*ast.RangeStmt); ok && identObj(finfo, rs.X) == filterParam {
			outer = rs
		}
	}
	if outer == nil || outer.Key == nil || outer.Value == nil {
		c.Bad("C11.R3", "eniFilter iterates the filter", p.Pos(filter.Decl), filter.Key(), "for k, v := range filter { … } at the top level (every required tag is checked)", "outer loop over the filter parameter not found")
		return
	}
	k, v2 := exprString(outer.Key), exprString(outer.Value)
	// returns
	nTrue := 0
	for _, r := range declReturns(filter.Decl.Body) {
		tv := finfo.Types[r.Results[0]]
		if tv.Value != nil && constant.BoolVal(tv.Value) {
			nTrue++
			c.Check(r.Pos() > outer.End(), "C11.R3", "eniFilter accepts only after all filter keys were checked", p.Pos(r), filter.Key(), "return true after the loop over the filter", "return true inside the loop")
		}
	}
	c.Check(nTrue == 1, "C11.R3", "eniFilter has a single accepting return", p.Pos(filter.Decl), filter.Key(), "one return true", fmt.Sprintf("%d", nTrue))
	// found flag
	var found types.Object
	ast.Inspect(outer.Body, func(nd ast.Node) bool {
		if as, ok := nd.(*ast.AssignStmt); ok && as.Tok == token.DEFINE && len(as.Lhs) == 1 {
			if o := identObj(finfo, as.Lhs[0]); o != nil {
				if b, ok := o.Type().Underlying().(*types.Basic); ok && b.Kind() == types.Bool && found == nil {
					found = o
				}
			}
		}
		return true
	})
	if found == nil {
		// accepted alternative idiom: `if <lookup by k> != v { return false }` as the whole body
		if len(outer.Body.List) == 1 {
			if is, ok := outer.Body.List[0].(*ast.IfStmt); ok && is.Else == nil && len(is.Body.List) == 1 {
				if be, ok := ast.Unparen(is.Cond).(*ast.BinaryExpr); ok && be.Op == token.NEQ {
					if r, ok := is.Body.List[0].(*ast.ReturnStmt); ok {
						tv := finfo.Types[r.Results[0]]
						lhs, rhs := exprString(be.X), exprString(be.Y)
						if tv.Value != nil && !constant.BoolVal(tv.Value) && ((strings.Contains(lhs, "["+k+"]") && rhs == v2) || (strings.Contains(rhs, "["+k+"]") && lhs == v2)) {
							c.OK("C11.R3", "eniFilter rejects when a filter key is missing or differs (lookup idiom)", p.Pos(is), filter.Key(), "if tags[k] != v { return false }")
							return
						}
					}
				}
			}
		}
		c.Bad("C11.R3", "eniFilter tracks whether the key was found", p.Pos(outer), filter.Key(), "found := false per filter key", "no bool flag")
		return
	}
	for _, d := range varDefs(filter, found) {
		if d.tok == token.DEFINE {
			continue
		}
		// tag variable of the inner range
		tag := "tag"
		for _, nd := range pathTo(filter.Decl.Body, d.node) {
			if rs, ok := nd.(*ast.RangeStmt); ok && rs != outer && rs.Value != nil {
				tag = exprString(rs.Value)
			}
		}
		c.Require("C11.R3", "eniFilter: found only for a tag with the same key and value", filter, d.node, fmt.Sprintf("%s.TagKey == %s && %s.TagValue == %s", tag, k, tag, v2), nil)
	}
	// falling through an iteration of the outer loop requires found
	// (the last statement of the body is `if !found { return false }`)
	okTail := false
	if n := len(outer.Body.List); n > 0 {
		if is, ok := outer.Body.List[n-1].(*ast.IfStmt); ok {
			e := NewFactEngine(p, filter)
			f := e.Cond(is.Cond)
			if f.k == fNot && len(is.Body.List) == 1 {
				if r, ok := is.Body.List[0].(*ast.ReturnStmt); ok {
					tv := finfo.Types[r.Results[0]]
					if tv.Value != nil && !constant.BoolVal(tv.Value) && identObj(finfo, ast.Unparen(is.Cond).(*ast.UnaryExpr).X) == found {
						okTail = true
					}
				}
			}
		}
	}
	c.Check(okTail, "C11.R3", "eniFilter rejects when a filter key is missing", p.Pos(outer), filter.Key(), "if !found { return false } ends every iteration", "not recognised")
}

// R6: the record's last-seen time survives everything but the two writers of R1.
// A store of the whole Status struct (a literal, another object's status) is a
// write of every field: in pkg/controller/pod-eni and pkg/controller/pod no
// PodENI.Status is assigned as a whole (parking a record — Detaching → Unbind —
// changes fields one by one and keeps PodLastSeen, which the TTL is counted from).
func c11R6(c *Ctx) {
	p := c.P
	c.Rule("C11.R6", "PodENI.Status is never assigned as a whole in the controllers (a literal or a copy would reset PodLastSeen, from which the TTL of a parked record is counted): status changes are field stores")
	stF := p.Field(apiPkg, "PodENI", "Status")
	if stF == nil {
		c.Unres("C11.R6", "PodENI.Status", "field not found")
		return
	}
	n := 0
	var scope []*FuncInfo
	for _, pk := range []string{podCtlPkg, podENICtlPkg} {
		scope = append(scope, p.FuncsInPkg(pk)...)
	}
	for _, s := range p.StoresTo(scope, stF) {
		if s.InLit {
			continue // a freshly created record
		}
		n++
		c.Bad("C11.R6", s.Fn.Name+": whole-status store", p.Pos(s.Node), s.Fn.Key(), "field stores only", "Status = "+exprString2(s.Node)+" resets PodLastSeen and every other field")
	}
	if n == 0 {
		c.OK("C11.R6", "no whole-status store in the controllers", "", "", fmt.Sprintf("%d functions examined", len(scope)))
	}
	// the built-in stateful kinds stay: utils.stsKinds only ever grows
	kinds, _ := p.LookupObj("pkg/utils", "stsKinds").(*types.Var)
	if kinds == nil {
		c.Unres("C11.R6", "utils.stsKinds", "not found")
		return
	}
	m := 0
	for _, fn := range p.FuncsInPkg("pkg/utils") {
		info := fn.Info()
		ast.Inspect(fn.Decl.Body, func(k ast.Node) bool {
			as, ok := k.(*ast.AssignStmt)
			if !ok {
				return true
			}
			for i, l := range as.Lhs {
				if identObj(info, l) != kinds {
					continue
				}
				m++
				okApp := false
				if len(as.Rhs) == len(as.Lhs) {
					if call, isApp := isBuiltinCall(info, as.Rhs[i], "append"); isApp && len(call.Args) > 0 && identObj(info, call.Args[0]) == kinds {
						okApp = true
					}
				}
				c.Check(okApp, "C11.R6", fn.Name+": the stateful kinds only grow", p.Pos(as), fn.Key(), "stsKinds = append(stsKinds, …)", exprString2(as)+" can drop the built-in kinds (a StatefulSet pod would stop counting as one whose name survives re-creation)")
			}
			return true
		})
	}
	c.Floor("C11.R6", "assignments of utils.stsKinds", 1, m)
}

// R7: the record lists the collectors decide on are complete. Every List of
// PodENI records in the pod-eni controller is unpaged: no Limit option (the
// controller's client reads from the informer cache, which answers a limited
// list with the first page and no continue token — every record outside the
// page would look absent and its interface leaked).
func c11R7(c *Ctx) {
	p := c.P
	c.Rule("C11.R7", "every List of PodENI records in pkg/controller/pod-eni is complete: no Limit / paging option is passed (a page of the cached list would make the records outside it look absent to the leak collector)")
	n := 0
	for _, fn := range p.FuncsInPkg(podENICtlPkg) {
		info := fn.Info()
		for _, cs := range p.CallsIn(fn) {
			f := cs.Callee
			if f == nil || f.Name() != "List" || f.Pkg() == nil || f.Pkg().Path() != crClientPkg || len(cs.Call.Args) < 2 {
				continue
			}
			if !typeIs(info.TypeOf(cs.Call.Args[1]), modPath+"/"+apiPkg, "PodENIList") {
				continue
			}
			n++
			bad := ""
			for _, a := range cs.Call.Args[2:] {
				x := ast.Unparen(derefExpr(fn, a))
				if u, ok := x.(*ast.UnaryExpr); ok && u.Op == token.AND {
					x = ast.Unparen(u.X)
				}
				switch t := x.(type) {
				case *ast.CompositeLit:
					for _, e := range t.Elts {
						if kv, ok := e.(*ast.KeyValueExpr); ok {
							if k := exprString(kv.Key); k == "Limit" || k == "Continue" {
								if v, isC := constInt(info, kv.Value); !(isC && v == 0) {
									bad = k + " option at " + p.Pos(kv)
								}
							}
						}
					}
				case *ast.CallExpr:
					if cf := Callee(info, t); cf != nil && (cf.Name() == "Limit" || cf.Name() == "Continue") {
						bad = cf.Name() + " option"
					}
					if tv, ok := info.Types[t.Fun]; ok && tv.IsType() && (strings.HasSuffix(tv.Type.String(), ".Limit") || strings.HasSuffix(tv.Type.String(), ".Continue")) {
						bad = tv.Type.String() + " option"
					}
				default:
					// an options variable assigned elsewhere: any store of its Limit field
					if o := identObj(info, x); o != nil {
						ast.Inspect(fn.Decl.Body, func(k ast.Node) bool {
							if as, ok := k.(*ast.AssignStmt); ok {
								for _, l := range as.Lhs {
									if sel, ok := ast.Unparen(l).(*ast.SelectorExpr); ok && identObj(info, sel.X) == o && (sel.Sel.Name == "Limit" || sel.Sel.Name == "Continue") {
										bad = sel.Sel.Name + " set at " + p.Pos(as)
									}
								}
							}
							return true
						})
					}
				}
			}
			c.Check(bad == "", "C11.R7", fn.Name+": the PodENI list is complete", p.Pos(cs.Call), fn.Key(), "client.List without Limit / Continue", bad)
		}
	}
	c.Floor("C11.R7", "lists of PodENI records", 2, n)
}

// R9: a record without the trunk flag is not an exclusive-ENI request. Records written by older builds
// have no attachmentOptions.trunk; the admission guard of podENICreate that refuses "an exclusive-ENI
// pod on a trunking node" fires only for a flag that is present and false — otherwise every such
// fixed-IP record would be refused on each retry and its pod never get its interface back.
func c11R9(c *Ctx) {
	p := c.P
	c.Rule("C11.R9", "podENICreate refuses a record for its trunk flag only when the flag is present (Trunk != nil) — an absent flag (older record) is not read as 'exclusive ENI requested'")
	fn := p.Func(podENICtlPkg, "ReconcilePodENI.podENICreate")
	if fn == nil {
		c.Unres("C11.R9", "ReconcilePodENI.podENICreate", "not found")
		return
	}
	info := fn.Info()
	sig := fn.Obj.Type().(*types.Signature)
	n := 0
	// the flag, as written in a guard: the field itself or a local that holds it
	flagIn := func(cond ast.Expr) ast.Expr {
		var found ast.Expr
		ast.Inspect(cond, func(j ast.Node) bool {
			x, ok := j.(ast.Expr)
			if !ok || found != nil {
				return found == nil
			}
			switch t := x.(type) {
			case *ast.SelectorExpr:
				if t.Sel.Name == "Trunk" {
					if fv := fieldOf(info, t); fv != nil {
						if _, isPtr := fv.Type().(*types.Pointer); isPtr {
							found = t
						}
					}
				}
			case *ast.Ident:
				if sel, ok := ast.Unparen(derefExpr(fn, t)).(*ast.SelectorExpr); ok && sel != ast.Expr(t) && sel.Sel.Name == "Trunk" {
					if fv := fieldOf(info, sel); fv != nil {
						if _, isPtr := fv.Type().(*types.Pointer); isPtr {
							found = t
						}
					}
				}
			}
			return found == nil
		})
		return found
	}
	judge := func(cond ast.Expr, body []ast.Stmt) {
		flag := flagIn(cond)
		if flag == nil {
			return
		}
		{
			for _, r := range declReturns(&ast.BlockStmt{List: body}) {
				if !guardedFailure(fn, sig, r) {
					continue
				}
				n++
				c.Require("C11.R9", "podENICreate: refusal for the trunk flag only when the flag is set", fn, r, exprString(flag)+" != nil", nil)
			}
		}
	}
	ast.Inspect(fn.Decl.Body, func(k ast.Node) bool {
		switch t := k.(type) {
		case *ast.IfStmt:
			judge(t.Cond, t.Body.List)
		case *ast.SwitchStmt:
			if t.Tag == nil {
				for _, cc := range t.Body.List {
					cl := cc.(*ast.CaseClause)
					for _, x := range cl.List {
						judge(x, cl.Body)
					}
				}
			}
		}
		return true
	})
	c.Floor("C11.R9", "refusals guarded by the trunk flag", 1, n)
}

// isCurrentTime: x is time.Now() or a local every definition of which is time.Now().
func isCurrentTime(fn *FuncInfo, x ast.Expr) bool {
	info := fn.Info()
	isNow := func(e ast.Expr) bool {
		call, ok := ast.Unparen(e).(*ast.CallExpr)
		if !ok {
			return false
		}
		f := Callee(info, call)
		return f != nil && f.Pkg() != nil && f.Pkg().Path() == "time" && f.Name() == "Now"
	}
	if isNow(x) {
		return true
	}
	v, ok := identObj(info, x).(*types.Var)
	if !ok || v.IsField() {
		return false
	}
	ds := varDefs(fn, v)
	if len(ds) == 0 {
		return false
	}
	for _, d := range ds {
		if d.rhs == nil || !isNow(d.rhs) {
			return false
		}
	}
	return true
}

// afterComparesWithNow: fn compares times with After, and every such comparison is against the current time.
func afterComparesWithNow(fn *FuncInfo) bool {
	info := fn.Info()
	n, ok := 0, true
	ast.Inspect(fn.Decl.Body, func(nd ast.Node) bool {
		if call, isCall := nd.(*ast.CallExpr); isCall && len(call.Args) == 1 {
			if sel, isSel := ast.Unparen(call.Fun).(*ast.SelectorExpr); isSel && sel.Sel.Name == "After" && typeIs(info.TypeOf(call.Args[0]), "time", "Time") {
				n++
				if !isCurrentTime(fn, call.Args[0]) {
					ok = false
				}
			}
		}
		return true
	})
	return n > 0 && ok
}
