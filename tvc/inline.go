package main

// E0 normalisation: a semantics-preserving *view* of the program in which calls to
// unexported same-package helpers (and to local closures defined once) that no rule names
// as an anchor are expanded at statement-level call sites. The expanded program is written
// as overlay source, type-checked again by go/packages, and analysed instead of the original;
// positions are mapped back to the original files. Rules therefore see the same shape whether
// a maintainer wrote a sequence inline or extracted it into a helper.
//
// Applicability is deliberately narrow; everything else keeps the call:
//   callee: same package, unexported, not generic, not variadic, no defer/recover/labels/goto,
//           no bare returns, at most inlineMaxNodes AST nodes, not (mutually) recursive,
//           not requested by any rule through Prog.Func / Prog.Method (anchors)
//   site:   h(a)            as a statement            (returns must be in tail positions)
//           x, y := h(a) / x, y = h(a)                (idem; results become assignments)
//           if x := h(a); cond { … }                  (init hoisted into a fresh block)
//           return h(a)                               (body pasted, returns kept)
//   names:  every free identifier of the callee body resolves to the same object at the call
//           site (no shadowing, imports available or addable), no argument mentions the name
//           of an earlier parameter
//
// Evaluation order is kept: receiver and arguments are bound once, left to right, before the
// body. A type error in the overlay disables the responsible sites and the step is repeated;
// if it still fails the un-normalised program is analysed.

import (
	"fmt"
	"go/ast"
	"go/token"
	"go/types"
	"os"
	"path/filepath"
	"sort"
	"strings"

	"golang.org/x/tools/go/packages"
)

const inlineMaxNodes = 400
const inlineMaxStmts = 40

type piece struct {
	s    string
	file string // original file for verbatim text ("" for glue)
	off  int    // original offset of s[0]
	at   token.Pos
	site int
}

type rope []piece

func glue(s string, at token.Pos, site int) rope { return rope{{s: s, at: at, site: site}} }

type inlSite struct {
	id     int
	caller *FuncInfo
	stmt   ast.Stmt
	call   *ast.CallExpr
	form   int
	callee *FuncInfo    // declared helper, or
	lit    *ast.FuncLit // local closure
	litVar *types.Var
	off    bool
	nres   int
	encl   *types.Signature // signature of the function or literal the statement belongs to
	stable bool             // formLitPart: everything else the statement reads is a local the helper cannot reach
}

const (
	formExpr = iota
	formAssign
	formReturn
	formIfInit
	formDelete  // a dead closure binding or its `_ = name` keep-alive
	formCond    // a call inside an if condition, hoisted under the guard of its evaluation
	formRetPart // `return a, h(x)`: the call is one of several results, the others are pure
	formLitPart // `x := &T{…, F: h(a), …}`, `f(a, h(b))`: the call is nested in a simple statement whose other impure calls all run after it
)

type inliner struct {
	p         *Prog
	protected map[string]bool // FullName of anchor functions
	src       map[string][]byte
	sites     map[ast.Stmt]*inlSite
	list      []*inlSite
	stack     []ast.Node
	siteStack []*inlSite
	subst     map[types.Object]rope
	exprRepl  map[ast.Node]rope
	defConv   map[ast.Stmt]int // callee declarations turned into assignments (1: has a value, 0: drop)
	unroll    map[ast.Stmt]*unrollInfo
	infoOf    map[string]*types.Info
	asgCount  map[*FuncInfo]map[types.Object]int
	dest      *ast.File                       // file the text being produced lands in
	imports   map[*ast.File]map[string]string // file -> path -> alias to add
	used      map[int]bool
	fileOf    map[*ast.File]*packages.Package
	Report    []string
}

func (in *inliner) text(file string, a, b token.Pos) rope {
	f := in.p.Fset.File(a)
	sa, sb := f.Offset(a), f.Offset(b)
	return rope{{s: string(in.src[file][sa:sb]), file: file, off: sa}}
}

func (in *inliner) fname(pos token.Pos) string { return in.p.Fset.File(pos).Name() }

// textOf returns the source of n with every maximal site strictly inside n expanded.
func (in *inliner) textOf(n ast.Node) rope {
	file := in.fname(n.Pos())
	var out rope
	cur := n.Pos()
	ast.Inspect(n, func(m ast.Node) bool {
		if m == nil || m == n {
			return true
		}
		if st, ok := m.(ast.Stmt); ok {
			if s := in.sites[st]; s != nil && !s.off {
				if r, ok := in.emitSite(s); ok {
					out = append(out, in.text(file, cur, st.Pos())...)
					out = append(out, r...)
					cur = st.End()
					return false
				}
			}
		}
		if r, ok := in.exprRepl[m]; ok {
			out = append(out, in.text(file, cur, m.Pos())...)
			out = append(out, r...)
			cur = m.End()
			return false
		}
		if id, ok := m.(*ast.Ident); ok && len(in.subst) > 0 {
			if info := in.infoOf[file]; info != nil {
				o := info.Uses[id]
				if o == nil {
					o = info.Defs[id]
				}
				if o != nil {
					if r, ok := in.subst[o]; ok {
						out = append(out, in.text(file, cur, id.Pos())...)
						out = append(out, r...)
						cur = id.End()
					}
				}
			}
		}
		return true
	})
	out = append(out, in.text(file, cur, n.End())...)
	return out
}

// identText is textOf for an expression that may itself be a substituted identifier.
func (in *inliner) exprText(x ast.Expr) rope {
	if r, ok := in.exprRepl[x]; ok {
		return r
	}
	if id, ok := x.(*ast.Ident); ok && len(in.subst) > 0 {
		if info := in.infoOf[in.fname(x.Pos())]; info != nil {
			o := info.Uses[id]
			if o == nil {
				o = info.Defs[id]
			}
			if r, ok := in.subst[o]; ok && o != nil {
				return r
			}
		}
	}
	return in.textOf(x)
}

// stmtText is textOf for a statement that may itself be a site.
type unrollInfo struct {
	site *inlSite
	args []ast.Expr
	elem types.Type
	q    types.Qualifier
}

// unrolled emits one copy of the loop body per variadic argument.
func (in *inliner) unrolled(rs *ast.RangeStmt, u *unrollInfo) rope {
	info := in.infoOf[in.fname(rs.Pos())]
	vid := rs.Value.(*ast.Ident)
	vo := info.Defs[vid]
	at := u.site.call.Pos()
	g := func(f string, a ...any) rope { return glue(fmt.Sprintf(f, a...), at, u.site.id) }
	// is the element variable written in the body?
	mut := false
	ast.Inspect(rs.Body, func(m ast.Node) bool {
		switch t := m.(type) {
		case *ast.AssignStmt:
			for _, l := range t.Lhs {
				if id, ok := ast.Unparen(l).(*ast.Ident); ok && info.Uses[id] == vo {
					mut = true
				}
			}
		case *ast.UnaryExpr:
			if id, ok := ast.Unparen(t.X).(*ast.Ident); ok && t.Op == token.AND && info.Uses[id] == vo {
				mut = true
			}
		case *ast.FuncLit:
			ast.Inspect(t, func(k ast.Node) bool {
				if id, ok := k.(*ast.Ident); ok && info.Uses[id] == vo {
					mut = true
				}
				return true
			})
			return false
		}
		return true
	})
	var out rope
	saved := contAsRet
	contAsRet = true
	defer func() { contAsRet = saved }()
	cinfo := u.site.caller.Info()
	for _, a := range u.args {
		argText := in.exprText(a)
		_, isIdent := ast.Unparen(a).(*ast.Ident)
		sameType := cinfo.TypeOf(a) != nil && types.Identical(cinfo.TypeOf(a), u.elem)
		out = append(out, g("{\n")...)
		if isIdent && sameType && !mut && vo != nil {
			in.subst[vo] = argText
			out = append(out, in.conv(rs.Body.List, nil, u.site)...)
			delete(in.subst, vo)
		} else {
			out = append(out, g("var %s %s = ", vid.Name, typeStr(u.elem, u.q))...)
			out = append(out, argText...)
			out = append(out, g("\n_ = %s\n", vid.Name)...)
			out = append(out, in.conv(rs.Body.List, nil, u.site)...)
		}
		out = append(out, g("}\n")...)
	}
	return out
}

func (in *inliner) stmtText(st ast.Stmt) rope {
	if r, ok := in.exprRepl[st]; ok {
		return r
	}
	if u, ok := in.unroll[st]; ok {
		return in.unrolled(st.(*ast.RangeStmt), u)
	}
	if mode, ok := in.defConv[st]; ok {
		// the declaration of a callee local that was unified with a result target
		switch t := st.(type) {
		case *ast.AssignStmt:
			out := in.exprText(t.Lhs[0])
			out = append(out, glue(" = ", t.Pos(), -1)...)
			return append(out, in.exprText(t.Rhs[0])...)
		case *ast.DeclStmt:
			vs := t.Decl.(*ast.GenDecl).Specs[0].(*ast.ValueSpec)
			if mode == 1 {
				out := in.exprText(vs.Names[0])
				out = append(out, glue(" = ", t.Pos(), -1)...)
				return append(out, in.exprText(vs.Values[0])...)
			}
			return glue("", t.Pos(), -1)
		}
	}
	if s := in.sites[st]; s != nil && !s.off {
		if r, ok := in.emitSite(s); ok {
			return r
		}
	}
	return in.textOf(st)
}

func (in *inliner) calleeBody(s *inlSite) (*ast.FuncType, *ast.BlockStmt, *ast.FieldList) {
	if s.lit != nil {
		return s.lit.Type, s.lit.Body, nil
	}
	return s.callee.Decl.Type, s.callee.Decl.Body, s.callee.Decl.Recv
}

// contAsRet: while the body of an unrolled `for _, v := range variadic` loop is converted, an
// unlabelled continue of that loop ends the iteration like a return ends a function.
var contAsRet bool

func isJump(n ast.Node) bool {
	switch t := n.(type) {
	case *ast.ReturnStmt:
		return true
	case *ast.BranchStmt:
		return contAsRet && t.Tok == token.CONTINUE && t.Label == nil
	}
	return false
}

func containsReturn(n ast.Node) bool {
	found := false
	ast.Inspect(n, func(m ast.Node) bool {
		switch m.(type) {
		case *ast.FuncLit:
			return false
		case *ast.ForStmt, *ast.RangeStmt:
			if contAsRet && m != n {
				// a continue inside a nested loop belongs to that loop; a return there cannot be converted
				if containsPlainReturn(m) {
					found = true
				}
				return false
			}
		}
		if isJump(m) {
			found = true
		}
		return !found
	})
	return found
}

func containsPlainReturn(n ast.Node) bool {
	found := false
	ast.Inspect(n, func(m ast.Node) bool {
		switch m.(type) {
		case *ast.FuncLit:
			return false
		case *ast.ReturnStmt:
			found = true
		}
		return !found
	})
	return found
}

// variadicLoop: the callee's variadic parameter is used exactly once, as the operand of a
// top-level `for _, v := range p` whose body leaves the loop only by falling through or by an
// unlabelled continue in tail position — the loop can be unrolled over the call's arguments.
func variadicLoop(info *types.Info, ft *ast.FuncType, body *ast.BlockStmt) *ast.RangeStmt {
	if ft.Params == nil || len(ft.Params.List) == 0 {
		return nil
	}
	last := ft.Params.List[len(ft.Params.List)-1]
	if _, ok := last.Type.(*ast.Ellipsis); !ok || len(last.Names) != 1 {
		return nil
	}
	po := info.Defs[last.Names[0]]
	if po == nil {
		return nil
	}
	uses := 0
	ast.Inspect(body, func(m ast.Node) bool {
		if id, ok := m.(*ast.Ident); ok && info.Uses[id] == po {
			uses++
		}
		return true
	})
	if uses != 1 {
		return nil
	}
	for _, st := range body.List {
		rs, ok := st.(*ast.RangeStmt)
		if !ok {
			continue
		}
		id, ok := ast.Unparen(rs.X).(*ast.Ident)
		if !ok || info.Uses[id] != po {
			continue
		}
		if rs.Key != nil {
			if k, ok := rs.Key.(*ast.Ident); !ok || k.Name != "_" {
				return nil
			}
		}
		if rs.Value == nil || rs.Tok != token.DEFINE {
			return nil
		}
		if _, ok := rs.Value.(*ast.Ident); !ok {
			return nil
		}
		bad := false
		ast.Inspect(rs.Body, func(m ast.Node) bool {
			switch t := m.(type) {
			case *ast.FuncLit:
				return false
			case *ast.ForStmt, *ast.RangeStmt, *ast.SwitchStmt, *ast.TypeSwitchStmt, *ast.SelectStmt:
				ast.Inspect(t, func(k ast.Node) bool {
					switch k.(type) {
					case *ast.ReturnStmt:
						bad = true
					}
					return !bad
				})
				return false
			case *ast.BranchStmt:
				if t.Tok != token.CONTINUE || t.Label != nil {
					bad = true
				}
			case *ast.ReturnStmt:
				bad = true
			}
			return !bad
		})
		if bad {
			return nil
		}
		saved := contAsRet
		contAsRet = true
		ok2 := tailReturns(rs.Body.List)
		contAsRet = saved
		if !ok2 {
			return nil
		}
		return rs
	}
	return nil
}

// bodyOK: structural applicability of a callee body.
func bodyOK(info *types.Info, ft *ast.FuncType, body *ast.BlockStmt) bool {
	return bodyOKn(info, ft, body, false)
}

// bodyOKn: with single set (the helper is referenced exactly once in the program, so expanding it moves
// code instead of copying it) the size bounds are ten times wider — "the body of f moved into fLocked
// behind a wrapper that takes the lock" is a common split.
func bodyOKn(info *types.Info, ft *ast.FuncType, body *ast.BlockStmt, single bool) bool {
	if ft.TypeParams != nil {
		return false
	}
	if ft.Params != nil {
		for _, f := range ft.Params.List {
			if _, ok := f.Type.(*ast.Ellipsis); ok {
				if variadicLoop(info, ft, body) == nil {
					return false
				}
			}
		}
	}
	named := false
	if ft.Results != nil {
		for _, f := range ft.Results.List {
			if len(f.Names) > 0 {
				named = true
			}
		}
	}
	ok, nodes, stmts := true, 0, 0
	ast.Inspect(body, func(m ast.Node) bool {
		if m == nil {
			return true
		}
		nodes++
		if _, isStmt := m.(ast.Stmt); isStmt {
			stmts++
		}
		switch t := m.(type) {
		case *ast.FuncLit:
			return true
		case *ast.DeferStmt, *ast.LabeledStmt:
			ok = false
		case *ast.BranchStmt:
			if t.Tok == token.GOTO || t.Label != nil {
				ok = false
			}
		case *ast.CallExpr:
			if id, isId := ast.Unparen(t.Fun).(*ast.Ident); isId && id.Name == "recover" {
				if _, b := info.Uses[id].(*types.Builtin); b {
					ok = false
				}
			}
		}
		return ok
	})
	if ok && named {
		// bare returns use the named results: not supported
		var walk func(n ast.Node)
		walk = func(n ast.Node) {
			ast.Inspect(n, func(m ast.Node) bool {
				switch t := m.(type) {
				case *ast.FuncLit:
					return false
				case *ast.ReturnStmt:
					if len(t.Results) == 0 {
						ok = false
					}
				}
				return ok
			})
		}
		walk(body)
	}
	if single {
		return ok && nodes <= 10*inlineMaxNodes && stmts <= 10*inlineMaxStmts
	}
	return ok && nodes <= inlineMaxNodes && stmts <= inlineMaxStmts
}

// tailReturns: every return of the list is in a position conv can restructure.
func tailReturns(list []ast.Stmt) bool {
	for i, s := range list {
		if isJump(s) {
			return true
		}
		switch t := s.(type) {
		case *ast.IfStmt:
			if !containsReturn(t) {
				continue
			}
			if t.Init != nil && containsReturn(t.Init) {
				return false
			}
			thenOK := tailReturns(t.Body.List)
			elseOK := true
			var elseList []ast.Stmt
			switch e := t.Else.(type) {
			case *ast.BlockStmt:
				elseList = e.List
			case *ast.IfStmt:
				elseList = []ast.Stmt{e}
			}
			if elseList != nil {
				elseOK = tailReturns(elseList)
			}
			if !thenOK || !elseOK {
				return false
			}
			thenRet, elseRet := alwaysReturns(t.Body.List), elseList != nil && alwaysReturns(elseList)
			rest := list[i+1:]
			if !thenRet && !elseRet && len(rest) > 0 {
				return false // a conditional return nested below a branch that continues
			}
			if thenRet && elseRet {
				return true
			}
			if initShadows(t, rest) {
				return false
			}
			return tailReturns(rest)
		case *ast.BlockStmt:
			if containsReturn(t) {
				return false
			}
		default:
			if containsReturn(s) {
				return false
			}
		}
	}
	return true
}

func alwaysReturns(list []ast.Stmt) bool {
	for _, s := range list {
		if isJump(s) {
			return true
		}
		switch t := s.(type) {
		case *ast.IfStmt:
			var elseList []ast.Stmt
			switch e := t.Else.(type) {
			case *ast.BlockStmt:
				elseList = e.List
			case *ast.IfStmt:
				elseList = []ast.Stmt{e}
			}
			if elseList != nil && alwaysReturns(t.Body.List) && alwaysReturns(elseList) {
				return true
			}
		}
	}
	return false
}

// initShadows: moving rest into a branch of t would put it under names declared by t.Init.
func initShadows(t *ast.IfStmt, rest []ast.Stmt) bool {
	as, ok := t.Init.(*ast.AssignStmt)
	if !ok || as.Tok != token.DEFINE {
		return false
	}
	names := map[string]bool{}
	for _, l := range as.Lhs {
		if id, ok := l.(*ast.Ident); ok && id.Name != "_" {
			names[id.Name] = true
		}
	}
	return mentionsOuter(rest, names)
}

// mentionsOuter: some statement of the list mentions one of the names in a position where it
// does not refer to a variable the list itself declares (`if n := …` scopes n over that
// statement, `n := …` over the rest of the list; their right-hand sides are evaluated outside).
func mentionsOuter(list []ast.Stmt, names map[string]bool) bool {
	mention := func(n ast.Node) bool {
		hit := false
		if n == nil {
			return false
		}
		ast.Inspect(n, func(m ast.Node) bool {
			if id, ok := m.(*ast.Ident); ok && names[id.Name] {
				hit = true
			}
			return !hit
		})
		return hit
	}
	without := func(as *ast.AssignStmt) map[string]bool {
		rest := map[string]bool{}
		for k := range names {
			rest[k] = true
		}
		for _, l := range as.Lhs {
			if id, ok := l.(*ast.Ident); ok {
				delete(rest, id.Name)
			}
		}
		return rest
	}
	for i, st := range list {
		switch t := st.(type) {
		case *ast.IfStmt:
			if as, ok := t.Init.(*ast.AssignStmt); ok && as.Tok == token.DEFINE {
				for _, r := range as.Rhs {
					if mention(r) {
						return true
					}
				}
				inner := without(as)
				if len(inner) == 0 {
					continue
				}
				var parts []ast.Stmt
				parts = append(parts, &ast.ExprStmt{X: t.Cond}, t.Body)
				if t.Else != nil {
					parts = append(parts, t.Else)
				}
				if mentionsOuter(parts, inner) {
					return true
				}
				continue
			}
		case *ast.AssignStmt:
			if t.Tok == token.DEFINE {
				for _, r := range t.Rhs {
					if mention(r) {
						return true
					}
				}
				inner := without(t)
				if len(inner) == 0 {
					return false
				}
				return mentionsOuter(list[i+1:], inner)
			}
		case *ast.BlockStmt:
			if mentionsOuter(t.List, names) {
				return true
			}
			continue
		}
		if mention(st) {
			return true
		}
	}
	return false
}

// conv emits a statement list of a callee body with returns turned into assignments to lhs
// (nothing for a void callee); rest-of-list statements move into the continuing branch.
func (in *inliner) conv(list []ast.Stmt, lhs []string, s *inlSite) rope {
	var out rope
	nl := func() { out = append(out, glue("\n", s.call.Pos(), s.id)...) }
	for i, st := range list {
		if _, isBr := st.(*ast.BranchStmt); isBr && isJump(st) {
			return out
		}
		switch t := st.(type) {
		case *ast.ReturnStmt:
			allBlank := true
			for _, l := range lhs {
				if l != "_" {
					allBlank = false
				}
			}
			if len(lhs) == len(t.Results) && len(lhs) > 0 {
				// x, y = x, y: every result is its target itself
				same := true
				for j, r := range t.Results {
					if lhs[j] != "_" && flatten(in.exprText(r)) != lhs[j] {
						same = false
					}
					if lhs[j] == "_" {
						if _, isId := ast.Unparen(r).(*ast.Ident); !isId {
							same = false
						}
					}
				}
				if same {
					return out
				}
				// drop the pairs that are identities, keep the rest
				if len(lhs) > 1 {
					var kl []string
					var kr []ast.Expr
					for j, r := range t.Results {
						if lhs[j] != "_" && flatten(in.exprText(r)) == lhs[j] {
							continue
						}
						kl = append(kl, lhs[j])
						kr = append(kr, r)
					}
					if len(kl) < len(lhs) && len(kl) > 0 {
						allB := true
						for _, l := range kl {
							if l != "_" {
								allB = false
							}
						}
						if !allB {
							out = append(out, glue(strings.Join(kl, ", ")+" = ", t.Pos(), s.id)...)
							for j, r := range kr {
								if j > 0 {
									out = append(out, glue(", ", t.Pos(), s.id)...)
								}
								out = append(out, in.exprText(r)...)
							}
							nl()
							return out
						}
					}
				}
			}
			if len(lhs) > 0 && len(t.Results) > 0 && !allBlank {
				out = append(out, glue(strings.Join(lhs, ", ")+" = ", t.Pos(), s.id)...)
				for j, r := range t.Results {
					if j > 0 {
						out = append(out, glue(", ", t.Pos(), s.id)...)
					}
					out = append(out, in.exprText(r)...)
				}
				nl()
			} else if len(t.Results) > 0 {
				// results discarded by the caller (statement call of a value-returning helper):
				// only expressions that do something are kept
				info := in.infoOf[in.fname(t.Pos())]
				if len(t.Results) == 1 && s.nres > 1 {
					blanks := make([]string, s.nres)
					for j := range blanks {
						blanks[j] = "_"
					}
					out = append(out, glue(strings.Join(blanks, ", ")+" = ", t.Pos(), s.id)...)
					out = append(out, in.exprText(t.Results[0])...)
					nl()
				} else {
					for _, r := range t.Results {
						if info != nil {
							if tv := info.Types[r]; tv.IsNil() || tv.Value != nil {
								continue
							}
						}
						if _, isId := ast.Unparen(r).(*ast.Ident); isId {
							continue
						}
						out = append(out, glue("_ = ", t.Pos(), s.id)...)
						out = append(out, in.exprText(r)...)
						nl()
					}
				}
			}
			return out
		case *ast.IfStmt:
			if !containsReturn(t) {
				out = append(out, in.stmtText(st)...)
				nl()
				continue
			}
			var elseList []ast.Stmt
			switch e := t.Else.(type) {
			case *ast.BlockStmt:
				elseList = e.List
			case *ast.IfStmt:
				elseList = []ast.Stmt{e}
			}
			thenRet := alwaysReturns(t.Body.List)
			elseRet := elseList != nil && alwaysReturns(elseList)
			rest := list[i+1:]
			out = append(out, glue("if ", t.Pos(), s.id)...)
			if t.Init != nil {
				out = append(out, in.textOf(t.Init)...)
				out = append(out, glue("; ", t.Pos(), s.id)...)
			}
			out = append(out, in.exprText(t.Cond)...)
			out = append(out, glue(" {\n", t.Pos(), s.id)...)
			out = append(out, in.conv(t.Body.List, lhs, s)...)
			if !thenRet && elseRet {
				out = append(out, in.conv(rest, lhs, s)...)
			}
			out = append(out, glue("} else {\n", t.Pos(), s.id)...)
			if elseList != nil {
				out = append(out, in.conv(elseList, lhs, s)...)
			}
			if thenRet && !elseRet {
				out = append(out, in.conv(rest, lhs, s)...)
			}
			out = append(out, glue("}\n", t.Pos(), s.id)...)
			if thenRet || elseRet {
				return out
			}
			// neither branch returns always: tailReturns guaranteed rest is empty
			return out
		default:
			out = append(out, in.stmtText(st)...)
			nl()
		}
	}
	return out
}

// qualifier for type strings in file f of package pk; records imports to add.
func (in *inliner) qualifier(f *ast.File, pk *packages.Package) types.Qualifier {
	return func(other *types.Package) string {
		if other == pk.Types {
			return ""
		}
		for _, im := range f.Imports {
			path := strings.Trim(im.Path.Value, `"`)
			if path == other.Path() {
				if im.Name != nil {
					if im.Name.Name == "." || im.Name.Name == "_" {
						break
					}
					return im.Name.Name
				}
				return other.Name()
			}
		}
		if in.imports[f] == nil {
			in.imports[f] = map[string]string{}
		}
		if a, ok := in.imports[f][other.Path()]; ok {
			return a
		}
		a := fmt.Sprintf("inl%d_%s", len(in.imports[f]), other.Name())
		in.imports[f][other.Path()] = a
		return a
	}
}

// namesOK: free identifiers of the callee body mean the same at the call site.
func (in *inliner) namesOK(s *inlSite, body *ast.BlockStmt, ft *ast.FuncType, recv *ast.FieldList) bool {
	info := s.caller.Info()
	callerFile := s.caller.File
	inner := s.caller.Pkg.Types.Scope().Innermost(s.call.Pos())
	if inner == nil {
		return false
	}
	local := map[types.Object]bool{} // objects declared by the callee (params, results, locals)
	decl := func(fl *ast.FieldList) {
		if fl == nil {
			return
		}
		for _, f := range fl.List {
			for _, n := range f.Names {
				if o := info.Defs[n]; o != nil {
					local[o] = true
				}
			}
		}
	}
	decl(recv)
	decl(ft.Params)
	decl(ft.Results)
	ast.Inspect(body, func(m ast.Node) bool {
		if id, ok := m.(*ast.Ident); ok {
			if o := info.Defs[id]; o != nil {
				local[o] = true
			}
		}
		return true
	})
	// implicit objects (type switch symbols)
	for n, o := range info.Implicits {
		if n.Pos() >= body.Pos() && n.End() <= body.End() {
			local[o] = true
		}
	}
	ok := true
	// the text lands in the outermost caller on the stack: every enclosing landing scope must
	// resolve the name to the same object
	type scopeAt struct {
		sc  *types.Scope
		pos token.Pos
	}
	var scopes []scopeAt
	for _, t := range append(append([]*inlSite{}, in.siteStack...), s) {
		sc := t.caller.Pkg.Types.Scope().Innermost(t.call.Pos())
		if sc == nil {
			return false
		}
		scopes = append(scopes, scopeAt{sc, t.call.Pos()})
	}
	_ = inner
	_ = callerFile
	check := func(id *ast.Ident) {
		o := info.Uses[id]
		if o == nil || local[o] {
			return
		}
		if v, isVar := o.(*types.Var); isVar && v.IsField() {
			return
		}
		if f, isFn := o.(*types.Func); isFn && f.Type().(*types.Signature).Recv() != nil {
			return // method name in a selector
		}
		pn, isPkg := o.(*types.PkgName)
		if !isPkg && o.Pkg() != nil && o.Pkg() != s.caller.Pkg.Types {
			return // reached through a qualified identifier
		}
		for _, sa := range scopes {
			_, at := sa.sc.LookupParent(id.Name, sa.pos)
			if isPkg {
				if apn, ok2 := at.(*types.PkgName); ok2 && apn.Imported() == pn.Imported() {
					continue
				}
				if at == nil && in.dest != nil {
					if in.imports[in.dest] == nil {
						in.imports[in.dest] = map[string]string{}
					}
					if a, dup := in.imports[in.dest][pn.Imported().Path()]; !dup || a == id.Name {
						in.imports[in.dest][pn.Imported().Path()] = id.Name
						continue
					}
				}
				ok = false
				return
			}
			if at != o {
				ok = false
				return
			}
		}
	}
	ast.Inspect(body, func(m ast.Node) bool {
		if id, isId := m.(*ast.Ident); isId {
			check(id)
		}
		return ok
	})
	return ok
}

func fieldNames(lists ...*ast.FieldList) []*ast.Ident {
	var out []*ast.Ident
	for _, fl := range lists {
		if fl == nil {
			continue
		}
		for _, f := range fl.List {
			out = append(out, f.Names...)
		}
	}
	return out
}

// assigns counts assignments (and address-taking) per variable of a function.
func (in *inliner) assigns(fn *FuncInfo) map[types.Object]int {
	if m, ok := in.asgCount[fn]; ok {
		return m
	}
	info := fn.Info()
	m := map[types.Object]int{}
	ast.Inspect(fn.Decl.Body, func(n ast.Node) bool {
		switch t := n.(type) {
		case *ast.AssignStmt:
			for _, l := range t.Lhs {
				if id, ok := ast.Unparen(l).(*ast.Ident); ok {
					if o := info.Defs[id]; o != nil {
						m[o]++
					} else if o := info.Uses[id]; o != nil {
						m[o]++
					}
				}
			}
		case *ast.IncDecStmt:
			if id, ok := ast.Unparen(t.X).(*ast.Ident); ok && info.Uses[id] != nil {
				m[info.Uses[id]]++
			}
		case *ast.UnaryExpr:
			if id, ok := ast.Unparen(t.X).(*ast.Ident); ok && t.Op == token.AND && info.Uses[id] != nil {
				m[info.Uses[id]] += 2
			}
		case *ast.RangeStmt:
			for _, l := range []ast.Expr{t.Key, t.Value} {
				if id, ok := l.(*ast.Ident); ok && info.Uses[id] != nil {
					m[info.Uses[id]] += 2
				}
			}
		}
		return true
	})
	in.asgCount[fn] = m
	return m
}

// quietFunc: the function stores only into its own local variables (no field, element or
// pointer stores, no sends) and calls only builtins, conversions, logging and quiet functions.
func (p *Prog) quietFunc(fi *FuncInfo, depth int) bool {
	if depth > 2 || fi.Decl.Body == nil {
		return false
	}
	if p.quiet == nil {
		p.quiet = map[*FuncInfo]bool{}
	}
	if v, ok := p.quiet[fi]; ok {
		return v
	}
	p.quiet[fi] = false
	info := fi.Info()
	ok := true
	ast.Inspect(fi.Decl.Body, func(n ast.Node) bool {
		switch t := n.(type) {
		case *ast.AssignStmt:
			for _, l := range t.Lhs {
				if _, isId := ast.Unparen(l).(*ast.Ident); !isId {
					ok = false
				} else if v, isVar := info.ObjectOf(ast.Unparen(l).(*ast.Ident)).(*types.Var); isVar && v.Parent() == v.Pkg().Scope() {
					ok = false // package-level variable
				}
			}
		case *ast.IncDecStmt:
			if _, isId := ast.Unparen(t.X).(*ast.Ident); !isId {
				ok = false
			}
		case *ast.SendStmt, *ast.GoStmt, *ast.DeferStmt:
			ok = false
		case *ast.CallExpr:
			if id, isId := ast.Unparen(t.Fun).(*ast.Ident); isId {
				if _, b := info.Uses[id].(*types.Builtin); b {
					if id.Name == "delete" || id.Name == "copy" || id.Name == "clear" {
						ok = false
					}
					return true
				}
			}
			if info.Types[t.Fun].IsType() {
				return true
			}
			switch lastSeg(calleeName(info, t)) {
			case "Info", "Error", "V", "WithValues", "WithName", "Infof", "Errorf", "Sprintf", "String", "Debugf", "Warnf", "Is", "As", "Before", "After", "Equal", "IsZero", "Sub", "Add", "Unix", "Value":
				return true
			}
			c := p.FuncOf(Callee(info, t))
			if c == nil || !p.quietFunc(c, depth+1) {
				ok = false
			}
		}
		return ok
	})
	p.quiet[fi] = ok
	return ok
}

// exprPure: evaluating x twice is harmless (no calls except builtins, conversions and methods
// with an empty write set).
func (in *inliner) exprPure(info *types.Info, x ast.Expr) bool {
	ok := true
	ast.Inspect(x, func(n ast.Node) bool {
		switch t := n.(type) {
		case *ast.FuncLit:
			ok = false
		case *ast.UnaryExpr:
			if t.Op == token.ARROW {
				ok = false
			}
		case *ast.CallExpr:
			if id, isId := ast.Unparen(t.Fun).(*ast.Ident); isId {
				if _, b := info.Uses[id].(*types.Builtin); b && (id.Name == "len" || id.Name == "cap") {
					return true
				}
			}
			if info.Types[t.Fun].IsType() {
				return true
			}
			fi := in.p.FuncOf(Callee(info, t))
			if fi == nil || fi.Decl.Recv == nil || !in.p.pureMethod(fi, 0) {
				ok = false
			}
		}
		return ok
	})
	return ok
}

// mutatedAddr: the variable's address is taken (so it may be written through a pointer).
func mutatedAddr(info *types.Info, body ast.Node, v *types.Var) bool {
	hit := false
	ast.Inspect(body, func(m ast.Node) bool {
		if u, ok := m.(*ast.UnaryExpr); ok && u.Op == token.AND {
			if id, ok := ast.Unparen(u.X).(*ast.Ident); ok && info.Uses[id] == v {
				hit = true
			}
		}
		return !hit
	})
	return hit
}

func flatten(r rope) string {
	var sb strings.Builder
	for _, p := range r {
		sb.WriteString(p.s)
	}
	return sb.String()
}

func typeStr(t types.Type, q types.Qualifier) string { return types.TypeString(t, q) }

// emitSite returns the replacement of the site's statement; import additions and usage marks
// made by a failed attempt are rolled back.
func (in *inliner) emitSite(s *inlSite) (rope, bool) {
	savedImp := map[*ast.File]map[string]string{}
	for f, m := range in.imports {
		c := map[string]string{}
		for k, v := range m {
			c[k] = v
		}
		savedImp[f] = c
	}
	savedUsed := map[int]bool{}
	for k := range in.used {
		savedUsed[k] = true
	}
	r, ok := in.emitSite0(s)
	if !ok {
		in.imports, in.used = savedImp, savedUsed
	}
	return r, ok
}

func (in *inliner) emitSite0(s *inlSite) (rope, bool) {
	if s.form == formDelete {
		in.used[s.id] = true
		return glue("", s.stmt.Pos(), s.id), true
	}
	ft, body, recv := in.calleeBody(s)
	var self ast.Node = body
	for _, n := range in.stack {
		if n == self {
			return nil, false // recursion
		}
	}
	if len(in.stack) >= 3 {
		return nil, false
	}
	in.stack = append(in.stack, self)
	defer func() { in.stack = in.stack[:len(in.stack)-1] }()

	info := s.caller.Info()
	destFile := s.caller.File
	if in.dest != nil {
		destFile = in.dest
	}
	q := in.qualifier(destFile, s.caller.Pkg)
	at := s.call.Pos()
	g := func(f string, a ...any) rope { return glue(fmt.Sprintf(f, a...), at, s.id) }
	var out rope

	var sig *types.Signature
	if s.lit != nil {
		sig, _ = info.TypeOf(s.lit).(*types.Signature)
	} else {
		sig = s.callee.Obj.Type().(*types.Signature)
	}
	// ---- bindings ----
	type bind struct {
		name, typ string
		val       rope
		arg       ast.Expr
		obj       types.Object
	}
	var binds []bind
	newSubst := map[types.Object]rope{}
	declared := map[string]bool{} // names declared inside the callee body
	ast.Inspect(body, func(m ast.Node) bool {
		if id, ok := m.(*ast.Ident); ok && info.Defs[id] != nil {
			declared[id.Name] = true
		}
		return true
	})
	mutated := map[types.Object]bool{} // callee parameters assigned or address-taken in the body
	inLit := map[types.Object]bool{}   // … or mentioned inside a function literal
	var scanMut func(n ast.Node, lit bool)
	scanMut = func(n ast.Node, lit bool) {
		ast.Inspect(n, func(m ast.Node) bool {
			switch t := m.(type) {
			case *ast.FuncLit:
				if !lit {
					scanMut(t.Body, true)
					return false
				}
			case *ast.AssignStmt:
				for _, l := range t.Lhs {
					if id, ok := ast.Unparen(l).(*ast.Ident); ok && info.Uses[id] != nil {
						mutated[info.Uses[id]] = true
					}
				}
			case *ast.IncDecStmt:
				if id, ok := ast.Unparen(t.X).(*ast.Ident); ok && info.Uses[id] != nil {
					mutated[info.Uses[id]] = true
				}
			case *ast.UnaryExpr:
				if id, ok := ast.Unparen(t.X).(*ast.Ident); ok && t.Op == token.AND && info.Uses[id] != nil {
					mutated[info.Uses[id]] = true
				}
			case *ast.RangeStmt:
				for _, l := range []ast.Expr{t.Key, t.Value} {
					if id, ok := l.(*ast.Ident); ok && t.Tok == token.ASSIGN && info.Uses[id] != nil {
						mutated[info.Uses[id]] = true
					}
				}
			case *ast.Ident:
				if lit && info.Uses[t] != nil {
					inLit[info.Uses[t]] = true
				}
			}
			return true
		})
	}
	scanMut(body, false)
	// canSubst: the parameter can be replaced textually by the argument
	// stores and calls of the body, for substituting selector-path arguments
	storedFields := map[types.Object]bool{}
	callsQuiet := true
	// function-typed parameters bound to literal arguments: their bodies run inside the callee
	litArg := map[types.Object]*ast.FuncLit{}
	{
		k := 0
		if ft.Params != nil {
			for _, f := range ft.Params.List {
				names := f.Names
				if len(names) == 0 {
					k++
					continue
				}
				for _, n := range names {
					if k < len(s.call.Args) {
						if fl, ok := ast.Unparen(s.call.Args[k]).(*ast.FuncLit); ok && info.Defs[n] != nil {
							litArg[info.Defs[n]] = fl
						}
					}
					k++
				}
			}
		}
	}
	var scanEffects func(n ast.Node, depth int)
	scanEffects = func(n ast.Node, depth int) {
		ast.Inspect(n, func(m ast.Node) bool {
			switch t := m.(type) {
			case *ast.AssignStmt:
				for _, l := range t.Lhs {
					if sel, ok := ast.Unparen(l).(*ast.SelectorExpr); ok {
						storedFields[info.Uses[sel.Sel]] = true
					}
				}
			case *ast.IncDecStmt:
				if sel, ok := ast.Unparen(t.X).(*ast.SelectorExpr); ok {
					storedFields[info.Uses[sel.Sel]] = true
				}
			case *ast.CallExpr:
				if id, isId := ast.Unparen(t.Fun).(*ast.Ident); isId {
					if _, b := info.Uses[id].(*types.Builtin); b {
						return true
					}
					if fl := litArg[info.Uses[id]]; fl != nil && depth < 2 {
						scanEffects(fl.Body, depth+1)
						return true
					}
				}
				if info.Types[t.Fun].IsType() {
					return true
				}
				switch lastSeg(calleeName(info, t)) {
				case "Info", "Error", "V", "WithValues", "WithName", "Infof", "Errorf", "Sprintf", "String", "Debugf", "Warnf", "Is", "As", "Inc", "Dec", "WithLabelValues":
					return true
				}
				if fi := in.p.FuncOf(Callee(info, t)); fi != nil && fi.Decl.Recv != nil && in.p.pureMethod(fi, 0) {
					return true
				}
				if fi := in.p.FuncOf(Callee(info, t)); fi != nil && in.p.quietFunc(fi, 0) {
					return true
				}
				callsQuiet = false
			}
			return true
		})
	}
	scanEffects(body, 0)
	// canSubst: the parameter can be replaced textually by the argument
	canSubst := func(param *ast.Ident, ptype types.Type, arg ast.Expr) bool {
		if param == nil || param.Name == "_" {
			return false
		}
		po := info.Defs[param]
		if po == nil {
			return false
		}
		if mutated[po] {
			// accumulator: x = h(x, …) where every return of h returns that parameter — updating
			// the caller's variable in place is the same as assigning the result back
			aid, isId := ast.Unparen(arg).(*ast.Ident)
			if !isId || inLit[po] || sig == nil || sig.Results().Len() != 1 {
				return false
			}
			switch s.form {
			case formAssign:
				as, isAs := s.stmt.(*ast.AssignStmt)
				if !isAs || len(as.Lhs) != 1 || as.Tok != token.ASSIGN {
					return false
				}
				lid, ok := as.Lhs[0].(*ast.Ident)
				if !ok || info.Uses[lid] == nil || info.Uses[lid] != info.Uses[aid] {
					return false
				}
			case formReturn:
				// `return h(x, …)`: x is dead after the statement
				if in.assigns(s.caller)[info.Uses[aid]] >= 2 && false {
					return false
				}
			default:
				return false
			}
			allSame := true
			ast.Inspect(body, func(m ast.Node) bool {
				switch t := m.(type) {
				case *ast.FuncLit:
					return false
				case *ast.ReturnStmt:
					if len(t.Results) != 1 {
						allSame = false
					} else if rid, ok := ast.Unparen(t.Results[0]).(*ast.Ident); !ok || info.Uses[rid] != po {
						allSame = false
					}
				case *ast.UnaryExpr:
					if id, ok := ast.Unparen(t.X).(*ast.Ident); ok && t.Op == token.AND && info.Uses[id] == po {
						allSame = false
					}
				}
				return allSame
			})
			if !allSame {
				return false
			}
		}
		// literals of exactly the parameter's type, and typed constants of other packages
		if !mutated[po] {
			switch t := ast.Unparen(arg).(type) {
			case *ast.BasicLit:
				var def types.Type
				switch t.Kind {
				case token.INT:
					def = types.Typ[types.Int]
				case token.STRING:
					def = types.Typ[types.String]
				case token.FLOAT:
					def = types.Typ[types.Float64]
				}
				return def != nil && types.Identical(def, ptype)
			case *ast.SelectorExpr:
				if pid, ok := t.X.(*ast.Ident); ok {
					if _, isPkg := info.Uses[pid].(*types.PkgName); isPkg {
						if cst, ok := info.Uses[t.Sel].(*types.Const); ok && types.Identical(cst.Type(), ptype) && !declared[pid.Name] {
							return true
						}
						return false
					}
				}
			}
		}
		// root identifier and the field objects of a selector path a.b.c
		x := ast.Unparen(arg)
		var fields []types.Object
		for {
			sel, ok := x.(*ast.SelectorExpr)
			if !ok {
				break
			}
			if selection := info.Selections[sel]; selection == nil || selection.Kind() != types.FieldVal {
				return false
			}
			fields = append(fields, info.Uses[sel.Sel])
			x = ast.Unparen(sel.X)
		}
		id, ok := x.(*ast.Ident)
		if !ok || id.Name == "_" {
			return false
		}
		var ao types.Object
		switch o := info.Uses[id].(type) {
		case *types.Var:
			if o.IsField() || o.Parent() == nil {
				return false
			}
			if o.Parent() == o.Pkg().Scope() && (len(fields) > 0 || o.Pkg() != s.caller.Pkg.Types) {
				return false
			}
			ao = o
		case *types.Const:
			if o.Pkg() != s.caller.Pkg.Types || len(fields) > 0 || !types.Identical(o.Type(), ptype) {
				return false
			}
			ao = o
		default:
			return false
		}
		if at := info.TypeOf(arg); at == nil || !types.Identical(at, ptype) {
			return false
		}
		if declared[id.Name] && !(len(fields) == 0 && id.Name == param.Name) {
			return false
		}
		if inLit[po] && in.assigns(s.caller)[ao] > 1 {
			return false
		}
		if len(fields) > 0 {
			if inLit[po] {
				return false
			}
			if !callsQuiet {
				// the callee could only re-point a field of the root variable through another
				// reference to it: none of the other arguments may mention the root
				others := append([]ast.Expr{}, s.call.Args...)
				if sel, ok := ast.Unparen(s.call.Fun).(*ast.SelectorExpr); ok && s.callee != nil && s.callee.Decl.Recv != nil {
					others = append(others, sel.X)
				}
				for _, a := range others {
					if a == arg {
						continue
					}
					mentions := false
					ast.Inspect(a, func(m ast.Node) bool {
						if mid, ok := m.(*ast.Ident); ok && info.Uses[mid] == ao {
							mentions = true
						}
						return !mentions
					})
					if mentions {
						return false
					}
				}
			}
			for _, f := range fields {
				if storedFields[f] {
					return false
				}
			}
		}
		return true
	}
	if recv != nil && len(recv.List) == 1 {
		sel, ok := ast.Unparen(s.call.Fun).(*ast.SelectorExpr)
		if !ok {
			return nil, false
		}
		selection := info.Selections[sel]
		if selection == nil || len(selection.Index()) != 1 {
			return nil, false // promoted through embedding
		}
		rt := s.callee.Obj.Type().(*types.Signature).Recv().Type()
		xt := info.TypeOf(sel.X)
		val := in.exprText(sel.X)
		_, wantPtr := rt.(*types.Pointer)
		_, havePtr := xt.(*types.Pointer)
		var rid *ast.Ident
		if len(recv.List[0].Names) == 1 {
			rid = recv.List[0].Names[0]
		}
		if wantPtr == havePtr && canSubst(rid, rt, sel.X) {
			newSubst[info.Defs[rid]] = val
		} else {
			switch {
			case wantPtr && !havePtr:
				val = append(append(g("&("), val...), g(")")...)
			case !wantPtr && havePtr:
				val = append(append(g("*("), val...), g(")")...)
			}
			name := "_"
			if rid != nil {
				name = rid.Name
			}
			var ro types.Object
			if rid != nil {
				ro = info.Defs[rid]
			}
			binds = append(binds, bind{name, typeStr(rt, q), val, sel.X, ro})
		}
	}
	if sig == nil {
		return nil, false
	}
	// a variadic callee: the loop over the variadic parameter is unrolled over the arguments
	var vloop *ast.RangeStmt
	nfixed := sig.Params().Len()
	if sig.Variadic() {
		vloop = variadicLoop(info, ft, body)
		if vloop == nil || s.call.Ellipsis != token.NoPos || len(s.call.Args) < sig.Params().Len()-1 {
			return nil, false
		}
		nfixed = sig.Params().Len() - 1
		// the arguments are read where the loop stands, not at the call: only stable operands
		for _, a := range s.call.Args[nfixed:] {
			stable := true
			ast.Inspect(a, func(m ast.Node) bool {
				switch m.(type) {
				case *ast.CallExpr, *ast.FuncLit, *ast.IndexExpr, *ast.SliceExpr, *ast.TypeAssertExpr, *ast.StarExpr:
					stable = false
				}
				return stable
			})
			if !stable {
				return nil, false
			}
		}
	} else if sig.Params().Len() != len(s.call.Args) {
		return nil, false
	}
	s.nres = sig.Results().Len()
	// result types must be identical to the targets' types (an untyped nil pasted into an
	// interface-typed target would otherwise change meaning)
	switch s.form {
	case formReturn:
		if s.encl == nil || s.encl.Results().Len() != sig.Results().Len() {
			return nil, false
		}
		for i := 0; i < sig.Results().Len(); i++ {
			if !types.Identical(s.encl.Results().At(i).Type(), sig.Results().At(i).Type()) {
				return nil, false
			}
		}
	case formAssign, formIfInit:
		as, _ := s.stmt.(*ast.AssignStmt)
		if s.form == formIfInit {
			as = s.stmt.(*ast.IfStmt).Init.(*ast.AssignStmt)
		}
		if len(as.Lhs) != sig.Results().Len() {
			return nil, false
		}
		for i, l := range as.Lhs {
			if id, ok := l.(*ast.Ident); ok && id.Name == "_" {
				continue
			}
			lt := info.TypeOf(l)
			if id, ok := l.(*ast.Ident); ok && lt == nil {
				if o := info.Defs[id]; o != nil {
					lt = o.Type()
				}
			}
			if lt == nil || !types.Identical(lt, sig.Results().At(i).Type()) {
				return nil, false
			}
		}
	}
	pi := 0
	if ft.Params != nil {
		for _, f := range ft.Params.List {
			names := f.Names
			if len(names) == 0 {
				names = []*ast.Ident{nil}
			}
			for _, n := range names {
				if pi >= nfixed {
					break // the variadic parameter is consumed by the unrolled loop
				}
				pt := sig.Params().At(pi).Type()
				arg := s.call.Args[pi]
				pi++
				if canSubst(n, pt, arg) {
					newSubst[info.Defs[n]] = in.exprText(arg)
					continue
				}
				name := "_"
				if n != nil {
					name = n.Name
				}
				var po types.Object
				if n != nil {
					po = info.Defs[n]
				}
				binds = append(binds, bind{name, typeStr(pt, q), in.exprText(arg), arg, po})
			}
		}
	}
	// an argument must not mention the name of an earlier binding, and a substituted argument
	// must not be captured by a binding
	for i := range binds {
		if binds[i].name == "_" {
			continue
		}
		for j := i + 1; j < len(binds); j++ {
			clash := false
			ast.Inspect(binds[j].arg, func(m ast.Node) bool {
				if id, ok := m.(*ast.Ident); ok && id.Name == binds[i].name {
					clash = true
				}
				return !clash
			})
			if clash {
				return nil, false
			}
		}
		for po := range newSubst {
			_ = po
		}
	}
	for _, f := range fieldNames(ft.Params, recv) {
		po := info.Defs[f]
		if po == nil {
			continue
		}
		if _, sub := newSubst[po]; !sub {
			continue
		}
	}
	// the names pasted for substituted parameters must not be re-declared by a binding
	{
		bound := map[string]bool{}
		for _, b := range binds {
			bound[b.name] = true
		}
		pi = 0
		var args []ast.Expr
		var pids []*ast.Ident
		if recv != nil && len(recv.List) == 1 {
			if sel, ok := ast.Unparen(s.call.Fun).(*ast.SelectorExpr); ok {
				args = append(args, sel.X)
				if len(recv.List[0].Names) == 1 {
					pids = append(pids, recv.List[0].Names[0])
				} else {
					pids = append(pids, nil)
				}
			}
		}
		if ft.Params != nil {
			for _, f := range ft.Params.List {
				if len(f.Names) == 0 && pi < nfixed {
					pids = append(pids, nil)
					args = append(args, s.call.Args[pi])
					pi++
				}
				for _, n := range f.Names {
					if pi >= nfixed {
						break
					}
					pids = append(pids, n)
					args = append(args, s.call.Args[pi])
					pi++
				}
			}
		}
		for i, pid := range pids {
			if pid == nil {
				continue
			}
			if _, sub := newSubst[info.Defs[pid]]; sub {
				x := ast.Unparen(args[i])
				for {
					sel, ok := x.(*ast.SelectorExpr)
					if !ok {
						break
					}
					x = ast.Unparen(sel.X)
				}
				if id, ok := x.(*ast.Ident); ok && bound[id.Name] {
					return nil, false
				}
			}
		}
	}
	if !in.namesOK(s, body, ft, recv) {
		return nil, false
	}

	// ---- result targets ----
	var lhs []string
	var pre rope // declarations in the caller's scope
	var post rope
	wrapOuter := false
	var guard []guardLit
	if s.form == formCond {
		is := s.stmt.(*ast.IfStmt)
		if sig.Results().Len() != 1 {
			return nil, false
		}
		var ok bool
		guard, ok = guardOf(is.Cond, s.call)
		if !ok {
			return nil, false
		}
		for _, gl := range guard {
			if !in.exprPure(info, gl.x) {
				return nil, false
			}
		}
		tmp := fmt.Sprintf("inl_c%d", s.id)
		lhs = []string{tmp}
		pre = append(pre, g("var %s %s\n", tmp, typeStr(sig.Results().At(0).Type(), q))...)
		wrapOuter = true
	}
	if s.form == formRetPart {
		if sig.Results().Len() != 1 {
			return nil, false
		}
		// the hoisted value must land in a result slot of exactly its type
		rs := s.stmt.(*ast.ReturnStmt)
		if s.encl == nil || s.encl.Results().Len() != len(rs.Results) {
			return nil, false
		}
		for i, r := range rs.Results {
			if r == ast.Expr(s.call) && !types.Identical(s.encl.Results().At(i).Type(), sig.Results().At(0).Type()) {
				return nil, false
			}
		}
		tmp := fmt.Sprintf("inl_r%d", s.id)
		lhs = []string{tmp}
		pre = append(pre, g("var %s %s\n", tmp, typeStr(sig.Results().At(0).Type(), q))...)
		wrapOuter = true
	}
	if s.form == formLitPart {
		// the other operands are read after the call instead of around it: the helper must not write,
		// or they must be out of its reach
		if sig.Results().Len() != 1 || s.callee == nil || !(s.stable || in.p.quietFunc(s.callee, 0)) {
			return nil, false
		}
		tmp := fmt.Sprintf("inl_l%d", s.id)
		lhs = []string{tmp}
		pre = append(pre, g("var %s %s\n", tmp, typeStr(sig.Results().At(0).Type(), q))...)
	}
	switch s.form {
	case formAssign, formIfInit:
		as, _ := s.stmt.(*ast.AssignStmt)
		if s.form == formIfInit {
			as = s.stmt.(*ast.IfStmt).Init.(*ast.AssignStmt)
			wrapOuter = true
		}
		for _, l := range as.Lhs {
			lt := flatten(in.exprText(l))
			if id, ok := l.(*ast.Ident); ok {
				// a definition that an enclosing expansion renamed
				if o := info.Defs[id]; o != nil {
					if r, sub := in.subst[o]; sub {
						lt = flatten(r)
					}
				}
			}
			lhs = append(lhs, lt)
			if id, ok := l.(*ast.Ident); ok && as.Tok == token.DEFINE && id.Name != "_" {
				if o := info.Defs[id]; o != nil {
					pre = append(pre, g("var %s %s\n", lt, typeStr(o.Type(), q))...)
				}
			}
		}
		// a callee-local name equal to a target name would capture the assignment
		clash := false
		names := map[string]bool{}
		for _, l := range lhs {
			if i := strings.IndexAny(l, ".[("); i >= 0 {
				l = l[:i]
			}
			names[strings.TrimLeft(l, "*&")] = true
		}
		for i := range binds {
			if names[binds[i].name] && binds[i].name != "_" {
				if binds[i].obj == nil {
					clash = true
					continue
				}
				fresh := fmt.Sprintf("%s_inl%d", binds[i].name, s.id)
				newSubst[binds[i].obj] = g("%s", fresh)
				binds[i].name = fresh
			}
		}
		// body-local declarations are renamed instead
		ast.Inspect(body, func(m ast.Node) bool {
			if id, ok := m.(*ast.Ident); ok && info.Defs[id] != nil && names[id.Name] {
				newSubst[info.Defs[id]] = g("%s_inl%d", id.Name, s.id)
			}
			return true
		})
		if ft.Results != nil {
			for _, f := range ft.Results.List {
				for _, n := range f.Names {
					if names[n.Name] && n.Name != "_" {
						if o := info.Defs[n]; o != nil {
							newSubst[o] = g("%s_inl%d", n.Name, s.id)
						} else {
							clash = true
						}
					}
				}
			}
		}
		if clash {
			return nil, false
		}
	}
	// result unification: the callee builds its results in locals declared once at the top level
	// of its body and returns them in a single final return — those locals become the targets
	var convStmts []ast.Stmt
	unifiedRes := map[types.Object]bool{}
	var zeroInit []string
	if (s.form == formAssign || s.form == formIfInit) && len(body.List) > 0 {
		if last, ok := body.List[len(body.List)-1].(*ast.ReturnStmt); ok && len(last.Results) == len(lhs) {
			nret := 0
			ast.Inspect(body, func(m ast.Node) bool {
				switch m.(type) {
				case *ast.FuncLit:
					return false
				case *ast.ReturnStmt:
					nret++
				}
				return true
			})
			if nret == 1 {
				as, _ := s.stmt.(*ast.AssignStmt)
				if s.form == formIfInit {
					as = s.stmt.(*ast.IfStmt).Init.(*ast.AssignStmt)
				}
				for j, r := range last.Results {
					rid, ok := ast.Unparen(r).(*ast.Ident)
					if !ok || lhs[j] == "_" {
						continue
					}
					if _, isIdent := as.Lhs[j].(*ast.Ident); !isIdent {
						continue
					}
					ro, _ := info.Uses[rid].(*types.Var)
					if ro == nil || mutatedAddr(info, body, ro) {
						continue
					}
					// the local becomes the caller's target: only when both have the result's type (a
					// *T local returned as an interface is a conversion, not a rename — the zero value
					// of the local is a typed nil, the zero value of the target is not)
					if j >= sig.Results().Len() || !types.Identical(ro.Type(), sig.Results().At(j).Type()) {
						continue
					}
					if lt := s.caller.Info().TypeOf(as.Lhs[j]); as.Tok != token.DEFINE && (lt == nil || !types.Identical(lt, ro.Type())) {
						continue
					}
					// a named result: declared by the signature, starts at its zero value
					isNamedRes := false
					if ft.Results != nil {
						for _, f := range ft.Results.List {
							for _, n := range f.Names {
								if info.Defs[n] == ro {
									isNamedRes = true
								}
							}
						}
					}
					if isNamedRes {
						zero := ""
						if b, ok := ro.Type().Underlying().(*types.Basic); ok {
							switch {
							case b.Info()&types.IsNumeric != 0:
								zero = "0"
							case b.Info()&types.IsString != 0:
								zero = `""`
							case b.Info()&types.IsBoolean != 0:
								zero = "false"
							}
						} else {
							switch ro.Type().Underlying().(type) {
							case *types.Pointer, *types.Interface, *types.Map, *types.Slice, *types.Signature, *types.Chan:
								zero = "nil"
							}
						}
						captured := false
						ast.Inspect(body, func(m ast.Node) bool {
							if id, ok := m.(*ast.Ident); ok && info.Defs[id] != nil && id.Name == lhs[j] {
								if _, renamed := newSubst[info.Defs[id]]; !renamed {
									captured = true
								}
							}
							return true
						})
						for _, b := range binds {
							if b.name == lhs[j] {
								captured = true
							}
						}
						if zero == "" || captured {
							continue
						}
						newSubst[ro] = g("%s", lhs[j])
						unifiedRes[ro] = true
						if as.Tok != token.DEFINE {
							zeroInit = append(zeroInit, lhs[j]+" = "+zero)
						}
						continue
					}
					// its single top-level declaration
					var decl ast.Stmt
					mode, ndecl := 0, 0
					for _, st := range body.List {
						switch t := st.(type) {
						case *ast.AssignStmt:
							if t.Tok == token.DEFINE {
								for _, l := range t.Lhs {
									if id, ok := l.(*ast.Ident); ok && info.Defs[id] == ro {
										ndecl++
										if len(t.Lhs) == 1 && len(t.Rhs) == 1 {
											decl, mode = t, 1
										}
									}
								}
							}
						case *ast.DeclStmt:
							if gd, ok := t.Decl.(*ast.GenDecl); ok && len(gd.Specs) == 1 {
								if vs, ok := gd.Specs[0].(*ast.ValueSpec); ok && len(vs.Names) == 1 && info.Defs[vs.Names[0]] == ro {
									ndecl++
									decl, mode = t, 0
									if len(vs.Values) == 1 {
										mode = 1
									}
								}
							}
						}
					}
					total := 0
					ast.Inspect(body, func(m ast.Node) bool {
						if id, ok := m.(*ast.Ident); ok && info.Defs[id] == ro {
							total++
						}
						return true
					})
					if decl == nil || ndecl != 1 || total != 1 {
						continue
					}
					// a caller name pasted into the body must not be captured by another callee local
					captured := false
					ast.Inspect(body, func(m ast.Node) bool {
						if id, ok := m.(*ast.Ident); ok && info.Defs[id] != nil && info.Defs[id] != ro && id.Name == lhs[j] {
							if _, renamed := newSubst[info.Defs[id]]; !renamed {
								captured = true
							}
						}
						return true
					})
					for _, b := range binds {
						if b.name == lhs[j] {
							captured = true
						}
					}
					if captured {
						continue
					}
					newSubst[ro] = g("%s", lhs[j])
					in.defConv[decl] = mode
					convStmts = append(convStmts, decl)
				}
			}
		}
	}
	defer func() {
		for _, st := range convStmts {
			delete(in.defConv, st)
		}
	}()
	// early mode: some return is not in tail position (inside a loop, below a branch that goes on).
	// The body is wrapped in a labelled loop that runs once; every return becomes an assignment to
	// the targets followed by a break out of that loop.
	early := false
	if s.form != formReturn && !tailReturns(body.List) {
		if vloop != nil || len(unifiedRes) > 0 || len(convStmts) > 0 || len(zeroInit) > 0 {
			return nil, false
		}
		nres := sig.Results().Len()
		// a function that returns one value other than an error is a query (a search, a predicate,
		// a getter): it stays a call and the fact engine uses its postcondition; early mode is for
		// procedures (no result, an error, or several results)
		if nres == 1 && sig.Results().At(0).Type().String() != "error" {
			return nil, false
		}
		okRets := true
		ast.Inspect(body, func(m ast.Node) bool {
			switch t := m.(type) {
			case *ast.FuncLit:
				return false
			case *ast.ReturnStmt:
				if len(t.Results) != nres {
					okRets = false // `return f()` forwarding several results
				}
			}
			return true
		})
		if !okRets || (s.form != formExpr && len(lhs) != nres) {
			return nil, false
		}
		early = true
	}
	if s.form == formExpr && sig.Results().Len() > 0 && containsReturn(body) {
		// results are dropped: conv emits blank assignments
	}

	if vloop != nil {
		in.unroll[vloop] = &unrollInfo{site: s, args: s.call.Args[nfixed:], elem: sig.Params().At(nfixed).Type().(*types.Slice).Elem(), q: q}
		defer delete(in.unroll, vloop)
	}
	// ---- assemble ----
	in.siteStack = append(in.siteStack, s)
	for o, r := range newSubst {
		in.subst[o] = r
	}
	defer func() {
		in.siteStack = in.siteStack[:len(in.siteStack)-1]
		for o := range newSubst {
			delete(in.subst, o)
		}
	}()
	if wrapOuter {
		out = append(out, g("{\n")...)
	}
	if s.form == formCond {
		if is := s.stmt.(*ast.IfStmt); is.Init != nil {
			out = append(out, in.textOf(is.Init)...)
			out = append(out, g("\n")...)
		}
	}
	out = append(out, pre...)
	if len(guard) > 0 {
		out = append(out, g("if ")...)
		for i, gl := range guard {
			if i > 0 {
				out = append(out, g(" && ")...)
			}
			if !gl.pos {
				out = append(out, g("!")...)
			}
			out = append(out, g("(")...)
			out = append(out, in.exprText(gl.x)...)
			out = append(out, g(")")...)
		}
		out = append(out, g(" {\n")...)
	}
	// braces are needed only when the expansion declares something
	needBlock := len(binds) > 0
	if ft.Results != nil {
		for _, f := range ft.Results.List {
			for _, n := range f.Names {
				if n.Name != "_" && !unifiedRes[info.Defs[n]] {
					needBlock = true
				}
			}
		}
	}
	for _, st := range body.List {
		switch t := st.(type) {
		case *ast.DeclStmt, *ast.LabeledStmt:
			if _, conv := in.defConv[st]; !conv {
				needBlock = true
			}
		case *ast.AssignStmt:
			if _, conv := in.defConv[st]; t.Tok == token.DEFINE && !conv {
				needBlock = true
			}
		}
	}
	if needBlock {
		out = append(out, g("{\n")...)
	}
	for _, b := range binds {
		out = append(out, g("var %s %s = ", b.name, b.typ)...)
		out = append(out, b.val...)
		out = append(out, g("\n")...)
		if b.name != "_" {
			out = append(out, g("_ = %s\n", b.name)...)
		}
	}
	if ft.Results != nil {
		ri := -1 // index of the result (a field may declare several)
		for _, f := range ft.Results.List {
			for _, n := range f.Names {
				ri++
				if n.Name != "_" && unifiedRes[info.Defs[n]] {
					continue
				}
				if n.Name != "_" {
					nm := n.Name
					if r, ok := newSubst[info.Defs[n]]; ok {
						nm = flatten(r)
					}
					out = append(out, g("var %s %s\n_ = %s\n", nm, typeStr(sig.Results().At(ri).Type(), q), nm)...)
				}
			}
		}
	}
	if s.litVar != nil {
		out = append(out, g("_ = %s\n", s.litVar.Name())...)
	}
	for _, z := range zeroInit {
		out = append(out, g("%s\n", z)...)
	}
	if early {
		label := fmt.Sprintf("inlonce%d", s.id)
		var rets []*ast.ReturnStmt
		ast.Inspect(body, func(m ast.Node) bool {
			switch t := m.(type) {
			case *ast.FuncLit:
				return false
			case *ast.ReturnStmt:
				rets = append(rets, t)
			}
			return true
		})
		for _, r := range rets {
			var rep rope
			rep = append(rep, g("{\n")...)
			if len(r.Results) > 0 {
				if s.form == formExpr || len(lhs) == 0 {
					for range r.Results {
						if len(rep) > 1 {
							rep = append(rep, g(", ")...)
						}
						rep = append(rep, g("_")...)
					}
				} else {
					rep = append(rep, g("%s", strings.Join(lhs, ", "))...)
				}
				rep = append(rep, g(" = ")...)
				for i, x := range r.Results {
					if i > 0 {
						rep = append(rep, g(", ")...)
					}
					rep = append(rep, in.exprText(x)...)
				}
				rep = append(rep, g("\n")...)
			}
			rep = append(rep, g("break %s\n}", label)...)
			in.exprRepl[r] = rep
		}
		out = append(out, g("%s:\nfor {\n", label)...)
		for _, st := range body.List {
			out = append(out, in.stmtText(st)...)
			out = append(out, g("\n")...)
		}
		out = append(out, g("break %s\n}\n", label)...)
		for _, r := range rets {
			delete(in.exprRepl, r)
		}
	} else if s.form == formReturn {
		for _, st := range body.List {
			out = append(out, in.stmtText(st)...)
			out = append(out, g("\n")...)
		}
	} else {
		out = append(out, in.conv(body.List, lhs, s)...)
	}
	if needBlock {
		out = append(out, g("}\n")...)
	}
	if len(guard) > 0 {
		out = append(out, g("}\n")...)
	}
	out = append(out, post...)
	if s.form == formIfInit || s.form == formCond {
		is := s.stmt.(*ast.IfStmt)
		out = append(out, g("if ")...)
		if s.form == formCond {
			in.exprRepl[s.call] = g("%s", lhs[0])
		}
		condText := in.exprText(is.Cond)
		delete(in.exprRepl, s.call)
		out = append(out, condText...)
		condText = nil
		if false {
			out = append(out, in.exprText(is.Cond)...)
		}
		out = append(out, g(" ")...)
		out = append(out, in.textOf(is.Body)...)
		if is.Else != nil {
			out = append(out, g(" else ")...)
			out = append(out, in.textOf(is.Else)...)
		}
		out = append(out, g("\n}\n")...)
	}
	if s.form == formLitPart {
		in.exprRepl[s.call] = g("%s", lhs[0])
		out = append(out, in.textOf(s.stmt)...)
		delete(in.exprRepl, s.call)
		out = append(out, g("\n")...)
	}
	if s.form == formRetPart {
		rs := s.stmt.(*ast.ReturnStmt)
		out = append(out, g("return ")...)
		in.exprRepl[s.call] = g("%s", lhs[0])
		for i, r := range rs.Results {
			if i > 0 {
				out = append(out, g(", ")...)
			}
			out = append(out, in.exprText(r)...)
		}
		delete(in.exprRepl, s.call)
		out = append(out, g("\n}\n")...)
	}
	in.used[s.id] = true
	return out, true
}

// findSites classifies statement-level helper calls.
func (in *inliner) findSites() {
	p := in.p
	// how often each function is referenced (called or used as a value) in the module
	refs := map[*types.Func]int{}
	for _, pk := range p.All {
		if pk.TypesInfo == nil || !strings.HasPrefix(pk.PkgPath, modPath) {
			continue
		}
		for id, o := range pk.TypesInfo.Uses {
			if f, ok := o.(*types.Func); ok && id != nil {
				refs[f.Origin()]++
			}
		}
	}
	for _, fn := range p.funcList {
		info := fn.Info()
		// local closures: single definition `name := func…`, never assigned again
		closures := map[*types.Var]*ast.FuncLit{}
		assigned := map[*types.Var]int{}
		ast.Inspect(fn.Decl.Body, func(m ast.Node) bool {
			switch t := m.(type) {
			case *ast.AssignStmt:
				for i, l := range t.Lhs {
					id, ok := l.(*ast.Ident)
					if !ok {
						continue
					}
					var v *types.Var
					if o, ok := info.Defs[id].(*types.Var); ok {
						v = o
					} else if o, ok := info.Uses[id].(*types.Var); ok {
						v = o
					}
					if v == nil {
						continue
					}
					assigned[v]++
					if t.Tok == token.DEFINE && len(t.Lhs) == len(t.Rhs) {
						if fl, ok := t.Rhs[i].(*ast.FuncLit); ok {
							closures[v] = fl
						}
					}
				}
			case *ast.ValueSpec:
				for i, nm := range t.Names {
					if v, ok := info.Defs[nm].(*types.Var); ok {
						assigned[v]++
						if i < len(t.Values) {
							if fl, ok := t.Values[i].(*ast.FuncLit); ok {
								closures[v] = fl
							}
						}
					}
				}
			case *ast.UnaryExpr:
				if t.Op == token.AND {
					if id, ok := t.X.(*ast.Ident); ok {
						if v, ok := info.Uses[id].(*types.Var); ok {
							assigned[v] += 2
						}
					}
				}
			}
			return true
		})
		type cand struct {
			call   *ast.CallExpr
			form   int
			stable bool
		}
		// a helper call nested in a simple statement — an argument of another call, a field of a literal
		// that is an argument, … — can be hoisted in front of the statement when every other impure call of
		// the statement is an ancestor of it (runs after it anyway) and nothing between is conditional
		nested := func(st ast.Stmt) *cand {
			switch t := st.(type) {
			case *ast.ExprStmt, *ast.ReturnStmt:
			case *ast.AssignStmt:
				if t.Tok != token.DEFINE && t.Tok != token.ASSIGN {
					return nil
				}
			default:
				return nil
			}
			var stack []ast.Node
			var h *ast.CallExpr
			var anc map[ast.Node]bool
			var others []*ast.CallExpr
			bad := false
			ast.Inspect(st, func(m ast.Node) bool {
				if m == nil {
					stack = stack[:len(stack)-1]
					return true
				}
				switch t := m.(type) {
				case *ast.FuncLit:
					bad = true
				case *ast.UnaryExpr:
					if t.Op == token.ARROW {
						bad = true
					}
				case *ast.CallExpr:
					if tv, isConv := info.Types[t.Fun]; isConv && tv.IsType() {
						break
					}
					ci := p.FuncOf(Callee(info, t))
					if ci != nil && ci.Pkg == fn.Pkg && ci != fn {
						if h != nil {
							bad = true
						}
						h = t
						anc = map[ast.Node]bool{}
						for _, a := range stack {
							anc[a] = true
						}
					} else {
						others = append(others, t)
					}
				}
				stack = append(stack, m)
				return !bad
			})
			if bad || h == nil {
				return nil
			}
			exprAnc := 0
			for a := range anc {
				switch t := a.(type) {
				case *ast.BinaryExpr:
					if t.Op == token.LAND || t.Op == token.LOR {
						return nil
					}
					exprAnc++
				case ast.Expr:
					exprAnc++
				}
			}
			if exprAnc == 0 {
				return nil // the statement's own call: the plain forms apply
			}
			inside := func(n ast.Node) bool { return h.Pos() <= n.Pos() && n.End() <= h.End() }
			for _, o := range others {
				if !anc[o] && !inside(o) && !in.exprPure(info, o) {
					return nil
				}
			}
			// stable: outside the helper call the statement only reads locals (never address-taken),
			// constants and names — nothing the helper could change
			stable := true
			ast.Inspect(st, func(m ast.Node) bool {
				if m == nil || !stable {
					return false
				}
				if m == ast.Node(h) {
					return false
				}
				switch t := m.(type) {
				case *ast.CallExpr:
					if !anc[t] {
						stable = false
					}
				case *ast.SelectorExpr:
					if id, ok := t.X.(*ast.Ident); ok {
						if _, isPkg := info.Uses[id].(*types.PkgName); isPkg {
							return false
						}
					}
					if anc[t] {
						// the callee expression of an ancestor call (x.Method): x is read before the call
						stable = false
					}
					if sel := info.Selections[t]; sel != nil && sel.Kind() == types.FieldVal {
						stable = false
					}
				case *ast.IndexExpr, *ast.StarExpr, *ast.SliceExpr:
					stable = false
				case *ast.Ident:
					switch o := info.ObjectOf(t).(type) {
					case *types.Var:
						if o.IsField() {
							break
						}
						if o.Pkg() != nil && o.Parent() == o.Pkg().Scope() {
							stable = false
						} else if mutatedAddr(info, fn.Decl.Body, o) {
							stable = false
						}
					}
				}
				return stable
			})
			return &cand{h, formLitPart, stable}
		}
		var classify0 func(st ast.Stmt) []cand
		classify := func(st ast.Stmt) []cand {
			out := classify0(st)
			if n := nested(st); n != nil {
				dup := false
				for _, c := range out {
					if c.call == n.call {
						dup = true
					}
				}
				if !dup {
					out = append(out, *n)
				}
			}
			return out
		}
		classify0 = func(st ast.Stmt) []cand {
			switch t := st.(type) {
			case *ast.ExprStmt:
				if c, ok := t.X.(*ast.CallExpr); ok {
					return []cand{{call: c, form: formExpr}}
				}
			case *ast.AssignStmt:
				if len(t.Rhs) == 1 && (t.Tok == token.DEFINE || t.Tok == token.ASSIGN) {
					if c, ok := t.Rhs[0].(*ast.CallExpr); ok {
						for _, l := range t.Lhs {
							switch ast.Unparen(l).(type) {
							case *ast.Ident, *ast.SelectorExpr:
							default:
								return nil
							}
						}
						return []cand{{call: c, form: formAssign}}
					}
					// a struct literal with one helper call among otherwise pure field values: hoisting
					// the call in front of the statement keeps the order of everything observable
					if len(t.Lhs) == 1 {
						if _, isId := t.Lhs[0].(*ast.Ident); isId {
							x := ast.Unparen(t.Rhs[0])
							if u, ok := x.(*ast.UnaryExpr); ok && u.Op == token.AND {
								x = ast.Unparen(u.X)
							}
							if cl, ok := x.(*ast.CompositeLit); ok {
								if _, isStruct := info.TypeOf(cl).Underlying().(*types.Struct); isStruct {
									var call *ast.CallExpr
									for _, el := range cl.Elts {
										kv, ok := el.(*ast.KeyValueExpr)
										if !ok {
											return nil
										}
										if c, ok := ast.Unparen(kv.Value).(*ast.CallExpr); ok {
											if tv, isConv := info.Types[c.Fun]; isConv && tv.IsType() {
												if !in.exprPure(info, kv.Value) {
													return nil
												}
												continue
											}
											if call != nil {
												return nil
											}
											call = c
											continue
										}
										if !in.exprPure(info, kv.Value) {
											return nil
										}
									}
									if call != nil {
										return []cand{{call: call, form: formLitPart}}
									}
								}
							}
						}
					}
				}
			case *ast.ReturnStmt:
				if len(t.Results) == 1 {
					if c, ok := t.Results[0].(*ast.CallExpr); ok {
						return []cand{{call: c, form: formReturn}}
					}
				}
				if len(t.Results) > 1 {
					// one call among otherwise pure results: hoisting it in front of the return keeps
					// the order of everything observable
					var call *ast.CallExpr
					for _, r := range t.Results {
						if c, ok := r.(*ast.CallExpr); ok {
							if tv, isConv := info.Types[c.Fun]; isConv && tv.IsType() {
								continue
							}
							if call != nil {
								return nil
							}
							call = c
						}
					}
					if call == nil {
						return nil
					}
					for _, r := range t.Results {
						if r != ast.Expr(call) && !in.exprPure(info, r) {
							return nil
						}
					}
					return []cand{{call: call, form: formRetPart}}
				}
			case *ast.IfStmt:
				if as, ok := t.Init.(*ast.AssignStmt); ok && (as.Tok == token.DEFINE || as.Tok == token.ASSIGN) && len(as.Rhs) == 1 {
					if c, ok := as.Rhs[0].(*ast.CallExpr); ok {
						for _, l := range as.Lhs {
							if _, ok := l.(*ast.Ident); !ok {
								return nil
							}
						}
						return []cand{{call: c, form: formIfInit}}
					}
				}
				var out []cand
				for _, c := range condCalls(t.Cond) {
					out = append(out, cand{call: c, form: formCond})
				}
				return out
			}
			return nil
		}
		// dead closure bindings: the variable is only defined and kept alive by `_ = name`
		{
			refs := map[*types.Var]int{}
			keep := map[*types.Var][]ast.Stmt{}
			defs := map[*types.Var]ast.Stmt{}
			ast.Inspect(fn.Decl.Body, func(m ast.Node) bool {
				switch t := m.(type) {
				case *ast.AssignStmt:
					if len(t.Lhs) == 1 && len(t.Rhs) == 1 {
						if l, ok := t.Lhs[0].(*ast.Ident); ok {
							if r, ok := t.Rhs[0].(*ast.Ident); ok && l.Name == "_" && t.Tok == token.ASSIGN {
								if v, ok := info.Uses[r].(*types.Var); ok && closures[v] != nil {
									keep[v] = append(keep[v], t)
									refs[v]--
								}
							}
							if v, ok := info.Defs[l].(*types.Var); ok && closures[v] != nil && t.Tok == token.DEFINE {
								defs[v] = t
							}
						}
					}
				case *ast.DeclStmt:
					if gd, ok := t.Decl.(*ast.GenDecl); ok && len(gd.Specs) == 1 {
						if vs, ok := gd.Specs[0].(*ast.ValueSpec); ok && len(vs.Names) == 1 && len(vs.Values) == 1 {
							if v, ok := info.Defs[vs.Names[0]].(*types.Var); ok && closures[v] != nil {
								defs[v] = t
							}
						}
					}
				case *ast.Ident:
					if v, ok := info.Uses[t].(*types.Var); ok && closures[v] != nil {
						refs[v]++
					}
				}
				return true
			})
			for v, d := range defs {
				if refs[v] != 0 || assigned[v] != 1 || len(keep[v]) == 0 {
					continue
				}
				for _, st := range append([]ast.Stmt{d}, keep[v]...) {
					s := &inlSite{caller: fn, stmt: st, form: formDelete, id: len(in.list)}
					in.list = append(in.list, s)
					in.sites[st] = s
				}
			}
		}
		// only statements that are elements of a statement list can be replaced by a block
		listStmt := map[ast.Stmt]bool{}
		ast.Inspect(fn.Decl.Body, func(m ast.Node) bool {
			switch t := m.(type) {
			case *ast.BlockStmt:
				for _, x := range t.List {
					listStmt[x] = true
				}
			case *ast.CaseClause:
				for _, x := range t.Body {
					listStmt[x] = true
				}
			case *ast.CommClause:
				for _, x := range t.Body {
					listStmt[x] = true
				}
			}
			return true
		})
		walkWithLits(fn.Decl.Body, func(m ast.Node, lits []*ast.FuncLit) {
			st, ok := m.(ast.Stmt)
			if !ok || !listStmt[st] {
				return
			}
			for _, cd := range classify(st) {
				call, form := cd.call, cd.form
				s := &inlSite{caller: fn, stmt: st, call: call, form: form, stable: cd.stable}
				if len(lits) > 0 {
					s.encl, _ = info.TypeOf(lits[len(lits)-1]).(*types.Signature)
				} else {
					s.encl, _ = fn.Obj.Type().(*types.Signature)
				}
				if id, ok := ast.Unparen(call.Fun).(*ast.Ident); ok {
					if v, ok := info.Uses[id].(*types.Var); ok {
						if fl := closures[v]; fl != nil && assigned[v] == 1 && !(fl.Pos() <= call.Pos() && call.End() <= fl.End()) && bodyOK(info, fl.Type, fl.Body) {
							s.lit, s.litVar = fl, v
						}
					}
				}
				if s.lit == nil {
					obj := Callee(info, call)
					ci := p.FuncOf(obj)
					if ci == nil || ci.Pkg != fn.Pkg || ci == fn || (obj != nil && in.protected[obj.FullName()]) || (isExported(ci.Decl.Name.Name) && os.Getenv("TVC_NO_INLINE_EXPORTED") != "") {
						continue
					}
					if ci.Decl.Recv != nil {
						if len(ci.Decl.Recv.List) != 1 {
							continue
						}
						generic := false
						switch rt := ci.Decl.Recv.List[0].Type.(type) {
						case *ast.IndexExpr, *ast.IndexListExpr:
							generic = true
						case *ast.StarExpr:
							if _, gen := rt.X.(*ast.IndexExpr); gen {
								generic = true
							}
						}
						if _, isSel := ast.Unparen(call.Fun).(*ast.SelectorExpr); !isSel || generic {
							continue
						}
					}
					if !bodyOKn(info, ci.Decl.Type, ci.Decl.Body, refs[obj] == 1) {
						continue
					}
					s.callee = ci
				}
				if form == formCond {
					// predicates made of if/return only are handled inside the fact engine; only
					// helpers with statements are hoisted
					_, body, _ := in.calleeBody(s)
					simple := true
					for _, bs := range body.List {
						switch t := bs.(type) {
						case *ast.IfStmt, *ast.ReturnStmt:
						case *ast.AssignStmt:
							// a named boolean sub-condition (the engine inlines those too)
							ok := t.Tok == token.DEFINE && len(t.Lhs) == 1 && len(t.Rhs) == 1
							if ok {
								if b, isB := info.TypeOf(t.Rhs[0]).Underlying().(*types.Basic); !isB || b.Kind() != types.Bool {
									ok = false
								}
							}
							if !ok {
								simple = false
							}
						default:
							simple = false
						}
					}
					if simple {
						continue
					}
				}
				s.id = len(in.list)
				in.list = append(in.list, s)
				in.sites[st] = s
				break
			}
			return
		})
	}
}

// condCalls lists, in evaluation order, the calls that sit on the boolean skeleton of a
// condition (under &&, ||, !, parentheses and comparisons) — not inside other calls' arguments.
func condCalls(x ast.Expr) []*ast.CallExpr {
	switch t := x.(type) {
	case *ast.ParenExpr:
		return condCalls(t.X)
	case *ast.UnaryExpr:
		if t.Op == token.NOT {
			return condCalls(t.X)
		}
	case *ast.BinaryExpr:
		switch t.Op {
		case token.LAND, token.LOR, token.EQL, token.NEQ, token.LSS, token.LEQ, token.GTR, token.GEQ:
			return append(condCalls(t.X), condCalls(t.Y)...)
		}
	case *ast.CallExpr:
		return []*ast.CallExpr{t}
	}
	return nil
}

type guardLit struct {
	x   ast.Expr
	pos bool
}

// guardOf returns the conjunction under which call is evaluated inside cond.
func guardOf(cond ast.Expr, call *ast.CallExpr) ([]guardLit, bool) {
	inside := func(x ast.Expr) bool { return x.Pos() <= call.Pos() && call.End() <= x.End() }
	switch t := cond.(type) {
	case *ast.ParenExpr:
		return guardOf(t.X, call)
	case *ast.UnaryExpr:
		return guardOf(t.X, call)
	case *ast.CallExpr:
		return nil, t == call
	case *ast.BinaryExpr:
		if inside(t.X) {
			return guardOf(t.X, call)
		}
		if inside(t.Y) {
			g, ok := guardOf(t.Y, call)
			switch t.Op {
			case token.LAND:
				return append([]guardLit{{t.X, true}}, g...), ok
			case token.LOR:
				return append([]guardLit{{t.X, false}}, g...), ok
			}
			return g, ok
		}
	}
	return nil, false
}

// fileMap translates overlay offsets to original positions.
type fileMap struct {
	segs []ovSeg
}
type ovSeg struct {
	start, end int // overlay offsets
	file       string
	off        int // original offset of start (verbatim) or of the attribution point (glue)
	verbatim   bool
	site       int
}

func (fm *fileMap) lookup(off int) (ovSeg, bool) {
	i := sort.Search(len(fm.segs), func(i int) bool { return fm.segs[i].end > off })
	if i < len(fm.segs) && fm.segs[i].start <= off {
		return fm.segs[i], true
	}
	return ovSeg{}, false
}

// Normalise builds the expanded program; it returns p itself when nothing applies or the
// overlay cannot be type-checked.
func Normalise(p *Prog, o LoadOpts, protected map[string]bool) (*Prog, []string) {
	in := &inliner{p: p, protected: protected, src: map[string][]byte{}, sites: map[ast.Stmt]*inlSite{},
		imports: map[*ast.File]map[string]string{}, used: map[int]bool{}, subst: map[types.Object]rope{}, exprRepl: map[ast.Node]rope{}, defConv: map[ast.Stmt]int{}, unroll: map[ast.Stmt]*unrollInfo{},
		infoOf: map[string]*types.Info{}, asgCount: map[*FuncInfo]map[types.Object]int{}}
	for _, fn := range p.funcList {
		name := in.fname(fn.File.Pos())
		in.infoOf[name] = fn.Info()
		if _, ok := in.src[name]; !ok {
			b, ok := p.overlay[name]
			if !ok {
				var err error
				b, err = os.ReadFile(name)
				if err != nil {
					return p, []string{"normalisation skipped: " + err.Error()}
				}
			}
			in.src[name] = b
		}
	}
	in.findSites()
	var notes []string
	for round := 0; round < 4; round++ {
		in.used = map[int]bool{}
		in.imports = map[*ast.File]map[string]string{}
		overlay := map[string][]byte{}
		maps := map[string]*fileMap{}
		files := map[*ast.File]*FuncInfo{}
		for _, fn := range p.funcList {
			files[fn.File] = fn
		}
		var flist []*ast.File
		for f := range files {
			flist = append(flist, f)
		}
		sort.Slice(flist, func(i, j int) bool { return flist[i].Pos() < flist[j].Pos() })
		for _, f := range flist {
			has := false
			for _, s := range in.list {
				if s.caller.File == f && !s.off {
					has = true
				}
			}
			if !has {
				continue
			}
			name := in.fname(f.Pos())
			tf := p.Fset.File(f.Pos())
			start := token.Pos(tf.Base())
			// whole file: text before the first decl is verbatim
			var r rope
			in.dest = f
			cur := start
			for _, d := range f.Decls {
				fd, ok := d.(*ast.FuncDecl)
				if !ok || fd.Body == nil {
					continue
				}
				r = append(r, in.text(name, cur, fd.Pos())...)
				r = append(r, in.textOf(fd)...)
				cur = fd.End()
			}
			r = append(r, in.text(name, cur, token.Pos(tf.Base()+tf.Size()))...)
			// imports to add go right after the package clause, on the same line
			if im := in.imports[f]; len(im) > 0 {
				var paths []string
				for pth := range im {
					paths = append(paths, pth)
				}
				sort.Strings(paths)
				var decl strings.Builder
				for _, pth := range paths {
					fmt.Fprintf(&decl, "; import %s %q", im[pth], pth)
				}
				// split the first verbatim piece at the end of the package clause
				endPkg := tf.Offset(f.Name.End())
				var nr rope
				done := false
				for _, pc := range r {
					if !done && pc.file == name && pc.off <= endPkg && endPkg <= pc.off+len(pc.s) {
						k := endPkg - pc.off
						nr = append(nr, piece{s: pc.s[:k], file: name, off: pc.off})
						nr = append(nr, piece{s: decl.String(), at: f.Name.End(), site: -1})
						nr = append(nr, piece{s: pc.s[k:], file: name, off: endPkg})
						done = true
						continue
					}
					nr = append(nr, pc)
				}
				r = nr
			}
			var sb strings.Builder
			fm := &fileMap{}
			for _, pc := range r {
				if len(pc.s) == 0 {
					continue
				}
				sg := ovSeg{start: sb.Len(), end: sb.Len() + len(pc.s), site: pc.site}
				if pc.file != "" {
					sg.file, sg.off, sg.verbatim = pc.file, pc.off, true
				} else {
					ps := p.Fset.Position(pc.at)
					sg.file, sg.off = ps.Filename, ps.Offset
				}
				fm.segs = append(fm.segs, sg)
				sb.WriteString(pc.s)
			}
			overlay[name] = []byte(sb.String())
			maps[name] = fm
		}
		nUsed := 0
		for range in.used {
			nUsed++
		}
		if nUsed == 0 {
			return p, append(notes, "normalisation: no helper call site applies")
		}
		if d := os.Getenv("TVC_DUMP_OVERLAY"); d != "" {
			for name, b := range overlay {
				os.WriteFile(filepath.Join(d, strings.ReplaceAll(strings.TrimPrefix(name, p.Repo+"/"), "/", "_")), b, 0o644)
			}
		}
		o2 := o
		for name, b := range p.overlay {
			if _, ok := overlay[name]; !ok {
				overlay[name] = b
			}
		}
		o2.Overlay = overlay
		p2, err := Load(o2)
		if err == nil {
			p2.posLayers = append(append([]map[string]*fileMap{}, p.posLayers...), maps)
			p2.overlay = overlay
			if p.origSrc != nil {
				p2.origSrc = p.origSrc
			} else {
				p2.origSrc = in.src
			}
			callers := map[*FuncInfo]bool{}
			callees := map[string]bool{}
			for k, v := range p.expandedAll {
				callees[k] = v
			}
			for _, s := range in.list {
				if in.used[s.id] && s.form != formDelete {
					callers[s.caller] = true
					if s.callee != nil {
						callees[s.callee.Key()] = true
					} else {
						callees[s.caller.Key()+"."+s.litVar.Name()] = true
					}
				}
			}
			p2.expandedFns = map[string]bool{}
			p2.expandedAll = map[string]bool{}
			for k := range callees {
				p2.expandedFns[k] = true
				p2.expandedAll[k] = true
			}
			p2.nExpanded = p.nExpanded + nUsed
			var cs []string
			for k := range callees {
				cs = append(cs, k)
			}
			sort.Strings(cs)
			p2.Normalised = fmt.Sprintf("helper-expanded view: %d call sites of %d helpers expanded (rules see the same shape whether a sequence is written inline or extracted)", p2.nExpanded, len(cs))
			p2.ExpandedList = cs
			return p2, append(notes, fmt.Sprintf("normalisation round: %d helper call sites expanded in %d functions (cumulative %d sites, %d helpers)", nUsed, len(callers), p2.nExpanded, len(cs)))
		}
		// disable the sites the errors point into
		disabled := 0
		for _, e := range p2errs(p2) {
			fm := maps[e.file]
			if fm == nil {
				continue
			}
			if sg, ok := fm.lookup(e.off); ok && !sg.verbatim && sg.site >= 0 {
				if !in.list[sg.site].off {
					in.list[sg.site].off = true
					disabled++
				}
			} else {
				// an error in verbatim text inside an expanded body: find the nearest glue segment before it
				for i := len(fm.segs) - 1; i >= 0; i-- {
					if fm.segs[i].start <= e.off && !fm.segs[i].verbatim && fm.segs[i].site >= 0 {
						if !in.list[fm.segs[i].site].off {
							in.list[fm.segs[i].site].off = true
							disabled++
						}
						break
					}
				}
			}
		}
		notes = append(notes, fmt.Sprintf("normalisation round %d: overlay did not type-check (%v); %d sites disabled", round, firstLine(err.Error()), disabled))
		if os.Getenv("TVC_DEBUG_INLINE") != "" {
			for name, b := range overlay {
				os.WriteFile(filepath.Join(os.Getenv("TVC_DEBUG_INLINE"), strings.ReplaceAll(strings.TrimPrefix(name, p.Repo+"/"), "/", "_")), b, 0o644)
			}
			fmt.Fprintln(os.Stderr, err)
			if os.Getenv("TVC_DEBUG_STOP") != "" {
				os.Exit(3)
			}
		}
		if disabled == 0 {
			break
		}
	}
	return p, append(notes, "normalisation abandoned: analysing the program as written")
}

func firstLine(s string) string {
	ls := strings.Split(s, "\n")
	if len(ls) > 2 {
		return ls[1]
	}
	return s
}

type posErr struct {
	file string
	off  int
}

func p2errs(p *Prog) []posErr {
	var out []posErr
	if p == nil {
		return nil
	}
	for _, pk := range p.Roots {
		for _, e := range pk.Errors {
			// e.Pos is file:line:col
			parts := strings.Split(e.Pos, ":")
			if len(parts) < 3 {
				continue
			}
			var line, col int
			fmt.Sscanf(parts[len(parts)-2], "%d", &line)
			fmt.Sscanf(parts[len(parts)-1], "%d", &col)
			file := strings.Join(parts[:len(parts)-2], ":")
			var tf *token.File
			p.Fset.Iterate(func(f *token.File) bool {
				if f.Name() == file {
					tf = f
					return false
				}
				return true
			})
			if tf == nil || line < 1 || line > tf.LineCount() {
				continue
			}
			out = append(out, posErr{file, tf.Offset(tf.LineStart(line)) + col - 1})
		}
	}
	return out
}
