package main

// C08 — cluster IPAM respects quotas, converges and rolls back failed ENI creation.

import (
	"fmt"
	"go/ast"
	"go/token"
	"go/types"
	"sort"
	"strings"
)

func init() { registry["C08"] = c08 }

func c08(c *Ctx) {
	if c.P.Pkg(nodeCtlPkg) == nil {
		c.Unres("C08", nodeCtlPkg, "package not loaded")
		return
	}
	c08R1(c)
	c08R2(c)
	c08R3(c)
	c08R4(c)
	c08R5(c)
	c08R6(c)
	c08R7(c)
	c08R8(c)
	cachedAuthoritative(c, "C08.R9")
	mergeRule(c, "C08.R10")
	// the interface slots the daemon declares sum to what the instance can attach (shared rule C19.R1);
	// a retried create reuses its token, so a call that took effect is not repeated (shared rule C16.R2)
	c19R1(c)
	c16R2(c)
	c08R11(c)
	// trimming only removes idle, non-primary addresses (shared rule)
	c03R2(c)
	c03R6(c)
	c08R13(c)
	ruleFreshMergeTarget(c, "C16.R7", c.P.FuncsInPkg(clientPkg), "the option mergers of the cloud client (ApplyCreateNetworkInterface …)")
	ruleKeyedByOwnField(c, "C08.R12", c.P.FuncsInPkg(nodeCtlPkg), apiPkg, "IP", "IP", "the address maps of the node record (every reader, the release and the final delete look an address up by its IP)")
}

// R1 per-interface quota.
func c08R1(c *Ctx) {
	p := c.P
	c.Rule("C08.R1", "the number of addresses requested for an interface is min(…) over the remaining per-adapter quota (NodeCap.IPvXPerAdapter − len(current), positive) for an existing interface or the per-adapter limit for a new one, the demand and the batch size; the cloud calls pass exactly these counts")
	fn := p.Func(nodeCtlPkg, "assignEniWithOptions")
	if fn == nil {
		c.Unres("C08.R1", "assignEniWithOptions", "not found")
		return
	}
	info := fn.Info()
	batchFn := p.Func(nodeCtlPkg, "batchSize") // the rule names it: stays a function in the view
	n := 0
	for _, fam := range []struct{ fld, capF, mapF string }{{"addIPv4N", "IPv4PerAdapter", "IPv4"}, {"addIPv6N", "IPv6PerAdapter", "IPv6"}} {
		fv := p.Field(nodeCtlPkg, "eniOptions", fam.fld)
		st := p.StoresTo(nil, fv)
		c.WhoMay("C08.R1", "write eniOptions."+fam.fld, groupStores(st), map[string]string{nodeCtlPkg + ".assignEniWithOptions": "the only planner"})
		for _, s := range st {
			if s.Fn != fn || s.RHS == nil {
				continue
			}
			n++
			mc, ok := isBuiltinCall(info, s.RHS, "min")
			if !ok {
				c.Bad("C08.R1", fam.fld+" is a min(…)", p.Pos(s.Node), fn.Key(), "min(quota, demand, batch)", exprString(s.RHS))
				continue
			}
			hasBatch, hasCap, hasLeft := false, false, false
			var leftObj types.Object
			for _, a := range mc.Args {
				// the batch bound: the value of batchSize(ctx), directly or through a local
				if call, ok := ast.Unparen(derefExpr(fn, a)).(*ast.CallExpr); ok && batchFn != nil && Callee(info, call) == batchFn.Obj {
					hasBatch = true
				}
				if fvv := fieldOf(info, a); fvv != nil && fvv.Name() == fam.capF {
					hasCap = true
				}
				if o := identObj(info, a); o != nil {
					for _, d := range varDefs(fn, o) {
						if be, ok := ast.Unparen(d.rhs).(*ast.BinaryExpr); ok && be.Op == token.SUB {
							if fl := fieldOf(info, be.X); fl != nil && fl.Name() == fam.capF {
								if lc, ok := isBuiltinCall(info, be.Y, "len"); ok {
									if fm := fieldOf(info, lc.Args[0]); fm != nil && fm.Name() == fam.mapF {
										hasLeft = true
										leftObj = o
									}
								}
							}
						}
					}
				}
			}
			key := fam.fld + " bounded by the per-adapter quota"
			if hasLeft {
				c.Check(hasBatch, "C08.R1", key+" (existing interface)", p.Pos(s.Node), fn.Key(), "min(left quota, demand, batchSize)", exprString(s.RHS))
				c.Require("C08.R1", fam.fld+" set only while quota is left", fn, s.Node, leftObj.Name()+" > 0", nil)
				// this branch handles an existing interface
				c.Require("C08.R1", fam.fld+" left-quota branch is the existing-interface branch", fn, s.Node, "option.eniRef != nil", map[string]string{"option": enclosingRangeValue(fn, s.Node)})
			} else {
				c.Check(hasBatch && hasCap, "C08.R1", key+" (new interface)", p.Pos(s.Node), fn.Key(), "min(NodeCap."+fam.capF+", demand, batchSize)", exprString(s.RHS))
			}
		}
	}
	c.Floor("C08.R1", "planner stores of addIPv4N/addIPv6N", 4, n)
	// consumers
	for _, spec := range []struct {
		fn, callee, field, src string
	}{
		{"ReconcileNode.createENI", "CreateNetworkInterfaceV2", "IPCount", "addIPv4N"},
		{"ReconcileNode.createENI", "CreateNetworkInterfaceV2", "IPv6Count", "addIPv6N"},
		{"ReconcileNode.assignIP", "AssignPrivateIPAddressV2", "IPCount", "addIPv4N"},
		{"ReconcileNode.assignIP", "AssignIpv6AddressesV2", "IPv6Count", "addIPv6N"},
	} {
		cf := p.Func(nodeCtlPkg, spec.fn)
		if cf == nil {
			c.Unres("C08.R1", spec.fn, "not found")
			continue
		}
		found := false
		for _, cs := range p.CallsIn(cf) {
			if cs.Callee == nil || cs.Callee.Name() != spec.callee {
				continue
			}
			// the options literal: argument itself or the single-def local passed
			var lits []ast.Expr
			for _, a := range cs.Call.Args {
				lits = append(lits, a)
				if o := identObj(cf.Info(), a); o != nil {
					for _, d := range varDefs(cf, o) {
						if d.rhs != nil {
							lits = append(lits, d.rhs)
						}
					}
				}
			}
			for _, l := range lits {
				ast.Inspect(l, func(nd ast.Node) bool {
					if kv, ok := nd.(*ast.KeyValueExpr); ok && exprString(kv.Key) == spec.field {
						found = true
						okSrc := false
						if fv := fieldOf(cf.Info(), kv.Value); fv != nil && fv.Name() == spec.src {
							okSrc = true
						}
						c.Check(okSrc, "C08.R1", spec.callee+"."+spec.field+" = planned count", p.Pos(kv), cf.Key(), spec.field+": opt."+spec.src, exprString(kv.Value))
					}
					return true
				})
			}
		}
		if !found {
			c.Bad("C08.R1", spec.callee+"."+spec.field+" = planned count", p.Pos(cf.Decl), cf.Key(), spec.field+": opt."+spec.src, "count field not found at the cloud call")
		}
	}
}

func enclosingRangeValue(fn *FuncInfo, n ast.Node) string {
	v := "option"
	for _, nd := range pathTo(fn.Decl.Body, n) {
		if rs, ok := nd.(*ast.RangeStmt); ok && rs.Value != nil {
			v = exprString(rs.Value)
		}
	}
	return v
}

// R2 slots.
func c08R2(c *Ctx) {
	p := c.P
	c.Rule("C08.R2", "slots for new interfaces are bounded by the flavor total minus ALL interfaces of the record (whatever their status): every loop appending an option without an interface is bounded by min(…) with an operand derived from total − len(all interfaces)")
	fn := p.Func(nodeCtlPkg, "getEniOptions")
	srt := p.Func(nodeCtlPkg, "sortNetworkInterface")
	if fn == nil || srt == nil {
		c.Unres("C08.R2", "getEniOptions / sortNetworkInterface", "not found")
		return
	}
	info := fn.Info()
	// variables that hold "all interfaces": single definition = sortNetworkInterface(node)
	allENIs := map[types.Object]bool{}
	for _, cs := range p.CallsTo([]*FuncInfo{fn}, srt.Obj) {
		_, lhs := assignedFromCall(fn, cs.Call)
		if len(lhs) == 1 && lhs[0] != nil {
			ds := varDefs(fn, lhs[0])
			c.Check(len(ds) == 1, "C08.R2", "the interface list is not filtered after it was read", p.Pos(cs.Call), fn.Key(), "single definition: sorted := sortNetworkInterface(node)", fmt.Sprintf("%d definitions", len(ds)))
			if len(ds) == 1 {
				allENIs[lhs[0]] = true
			}
		}
	}
	// sortNetworkInterface returns every interface of the record
	okAll := false
	{
		sinfo := srt.Info()
		for _, r := range declReturns(srt.Decl.Body) {
			if o := identObj(sinfo, r.Results[0]); o != nil {
				ds := varDefs(srt, o)
				if len(ds) == 1 && ds[0].rhs != nil {
					if call, ok := ast.Unparen(ds[0].rhs).(*ast.CallExpr); ok && strings.HasSuffix(exprString(call.Fun), "Values") && len(call.Args) == 1 {
						if fv := fieldOf(sinfo, call.Args[0]); fv != nil && fv.Name() == "NetworkInterfaces" {
							okAll = true
						}
					}
				}
			}
		}
	}
	c.Check(okAll, "C08.R2", "sortNetworkInterface lists every interface of the record", p.Pos(srt.Decl), srt.Key(), "sorted := lo.Values(node.Status.NetworkInterfaces) (single definition, then sorted in place)", "not recognised")
	// "total" = sum of flavor counts
	// derivedFromTotal: expression is total − len(X) with X ∈ allENIs or the result slice that contains every existing interface
	resultHasAll := false
	var resultObj types.Object
	for _, r := range declReturns(fn.Decl.Body) {
		resultObj = identObj(info, r.Results[0])
	}
	ast.Inspect(fn.Decl.Body, func(nd ast.Node) bool {
		// lo.ForEach(sorted, func(item…){ result = append(result, &eniOptions{… eniRef: item}) })
		if call, ok := nd.(*ast.CallExpr); ok && strings.HasSuffix(exprString(call.Fun), "ForEach") && len(call.Args) == 2 {
			if o := identObj(info, call.Args[0]); o != nil && allENIs[o] {
				if lit, ok := call.Args[1].(*ast.FuncLit); ok {
					ast.Inspect(lit.Body, func(k ast.Node) bool {
						if as, ok := k.(*ast.AssignStmt); ok && len(as.Lhs) == 1 && identObj(info, as.Lhs[0]) == resultObj {
							if _, ok := isBuiltinCall(info, as.Rhs[0], "append"); ok && len(lit.Body.List) == 1 {
								resultHasAll = true
							}
						}
						return true
					})
				}
			}
		}
		return true
	})
	var isSlotBound func(x ast.Expr, depth int) bool
	isSlotBound = func(x ast.Expr, depth int) bool {
		if depth > 3 {
			return false
		}
		x = ast.Unparen(x)
		if be, ok := x.(*ast.BinaryExpr); ok && be.Op == token.SUB {
			if lc, ok := isBuiltinCall(info, be.Y, "len"); ok {
				o := identObj(info, lc.Args[0])
				if o != nil && (allENIs[o] || (o == resultObj && resultHasAll)) && exprString(be.X) == "total" {
					return true
				}
			}
		}
		if mc, ok := isBuiltinCall(info, x, "max"); ok {
			for _, a := range mc.Args {
				if isSlotBound(a, depth+1) {
					return true
				}
			}
		}
		if o := identObj(info, x); o != nil {
			ds := varDefs(fn, o)
			okDef := false
			for _, d := range ds {
				if d.rhs != nil && isSlotBound(d.rhs, depth+1) {
					okDef = true
				} else if d.tok == token.SUB_ASSIGN {
					// decrement keeps the bound
				} else if d.rhs == nil || !isSlotBound(d.rhs, depth+1) {
					if d.tok != token.SUB_ASSIGN {
						return false
					}
				}
			}
			return okDef
		}
		return false
	}
	n := 0
	ast.Inspect(fn.Decl.Body, func(nd ast.Node) bool {
		fs, ok := nd.(*ast.ForStmt)
		if !ok || fs.Cond == nil {
			return true
		}
		// appends an option with eniRef: nil ?
		appendsNew := false
		ast.Inspect(fs.Body, func(k ast.Node) bool {
			if kv, ok := k.(*ast.KeyValueExpr); ok && exprString(kv.Key) == "eniRef" && info.Types[ast.Unparen(kv.Value)].IsNil() {
				appendsNew = true
			}
			return true
		})
		if !appendsNew {
			return true
		}
		n++
		be, ok := ast.Unparen(fs.Cond).(*ast.BinaryExpr)
		bound := types.Object(nil)
		if ok && be.Op == token.LSS {
			bound = identObj(info, be.Y)
		}
		good := false
		if bound != nil {
			for _, d := range varDefs(fn, bound) {
				if mc, ok := isBuiltinCall(info, d.rhs, "min"); ok {
					for _, a := range mc.Args {
						if isSlotBound(a, 0) {
							good = true
						}
					}
				}
			}
		}
		c.Check(good, "C08.R2", "new-interface loop bounded by the free slots", p.Pos(fs), fn.Key(), "i < min(flavor count, total − len(all interfaces) …)", "bound not of that form")
		return true
	})
	c.Floor("C08.R2", "loops that add new-interface options", 3, n)
}

// R3 deferred roll-back in createENI.
func c08R3(c *Ctx) {
	p := c.P
	c.Rule("C08.R3", "createENI: once the cloud created the interface, every failure return is covered by the deferred roll-back (bound to the function's error variable: no shadowed error escapes it), which deletes the interface and, if that fails, records it as Deleting")
	fn := p.Func(nodeCtlPkg, "ReconcileNode.createENI")
	if fn == nil {
		c.Unres("C08.R3", "createENI", "not found")
		return
	}
	info := fn.Info()
	var create *ast.CallExpr
	for _, cs := range p.CallsIn(fn) {
		if cs.Callee != nil && cs.Callee.Name() == "CreateNetworkInterfaceV2" && cs.Lit == nil {
			create = cs.Call
		}
	}
	if create == nil {
		c.Unres("C08.R3", "CreateNetworkInterfaceV2 call", "not found")
		return
	}
	_, lhs := assignedFromCall(fn, create)
	if len(lhs) != 2 || lhs[0] == nil {
		c.Bad("C08.R3", "create result bound", p.Pos(create), fn.Key(), "", "not bound")
		return
	}
	resObj := lhs[0]
	isDel := func(call *ast.CallExpr) bool {
		cal := Callee(info, call)
		if cal == nil || cal.Name() != "DeleteNetworkInterfaceV2" {
			return false
		}
		uses := false
		ast.Inspect(call, func(m ast.Node) bool {
			if id, ok := m.(*ast.Ident); ok && info.ObjectOf(id) == resObj {
				uses = true
			}
			return true
		})
		return uses
	}
	undos, problems := findDeferredUndo(p, fn, isDel, nil)
	for _, pr := range problems {
		c.Bad("C08.R3", "createENI deferred roll-back shape", "", fn.Key(), "defer func(){ if err != nil { DeleteNetworkInterfaceV2(created id) … } }()", pr)
	}
	if len(undos) == 0 {
		c.Bad("C08.R3", "createENI has a deferred roll-back", p.Pos(fn.Decl), fn.Key(), "defer func(){ if err != nil { DeleteNetworkInterfaceV2(created id) } }()", "none found")
		return
	}
	du := undos[0]
	successKeepsResult(c, "C08.R3", fn, du, "delete of the created interface")
	sig := fn.Obj.Type().(*types.Signature)
	arm := errArm(fn, lhs[1], create.End())
	n := 0
	for _, r := range declReturns(fn.Decl.Body) {
		if r.Pos() < create.End() {
			continue
		}
		if arm != nil && r.Pos() > arm.Pos() && r.End() < arm.End() {
			continue // the create call's own error: nothing was created
		}
		if ok, known := isSuccessReturn(info, sig, r); ok && known {
			continue
		}
		n++
		ok, why := coveredByDeferredUndo(c, fn, du, isExactly(create), r)
		c.Check(ok, "C08.R3", "createENI failure return after "+lastFallible(fn, r)+" is rolled back", p.Pos(r), fn.Key(), "deferred roll-back registered and bound to the returned error", why)
	}
	c.Floor("C08.R3", "failure returns of createENI after the interface exists", 2, n)
	// on delete failure the interface is recorded as Deleting
	eniDel := constLit(p, clientPkg, "ENIStatusDeleting")
	q := NewPathQuery(p, fn, du.lit.Body)
	fe := NewFactEngine(p, fn)
	_, dl := assignedFromCall(fn, du.undo)
	if len(dl) == 1 && dl[0] != nil {
		asg := map[string]bool{"eq(" + objID(dl[0]) + ",nil)": false}
		q.Prune = func(cond ast.Expr, takeTrue bool) bool {
			v, known := eval3(fe.Cond(cond), asg)
			return known && v != takeTrue
		}
		record := func(nd ast.Node) bool {
			as, ok := nd.(*ast.AssignStmt)
			if !ok || len(as.Lhs) != 1 {
				return false
			}
			ix, ok := ast.Unparen(as.Lhs[0]).(*ast.IndexExpr)
			if !ok {
				return false
			}
			fv := fieldOf(info, ix.X)
			if fv == nil || fv.Name() != "NetworkInterfaces" {
				return false
			}
			okStatus := false
			ast.Inspect(as.Rhs[0], func(k ast.Node) bool {
				if kv, ok := k.(*ast.KeyValueExpr); ok && exprString(kv.Key) == "Status" {
					if tv := info.Types[kv.Value]; tv.Value != nil && tv.Value.ExactString() == eniDel {
						okStatus = true
					}
				}
				return true
			})
			return okStatus
		}
		w := q.Escapes(isExactly(du.undo), nil, record, nil)
		c.Check(w == nil, "C08.R3", "failed roll-back delete leaves the interface recorded as Deleting", p.Pos(du.undo), fn.Key(), "must-pass: delete error → NetworkInterfaces[id] = {Status: Deleting} → end of the closure", "path: "+p.describePath(w))
	} else {
		c.Bad("C08.R3", "roll-back delete error bound", p.Pos(du.undo), fn.Key(), "innerErr := DeleteNetworkInterfaceV2(…)", "discarded")
	}
}

// R4 partial assign results recorded as Deleting.
func c08R4(c *Ctx) {
	p := c.P
	c.Rule("C08.R4", "assignIP: addresses the cloud returned together with an error are recorded as Deleting in the map of the same family before the error is returned")
	fn := p.Func(nodeCtlPkg, "ReconcileNode.assignIP")
	if fn == nil {
		c.Unres("C08.R4", "assignIP", "not found")
		return
	}
	info := fn.Info()
	delLit := constLit(p, apiPkg, "IPStatusDeleting")
	n := 0
	for _, sp := range []struct{ callee, fam string }{{"AssignPrivateIPAddressV2", "IPv4"}, {"AssignIpv6AddressesV2", "IPv6"}} {
		for _, cs := range p.CallsIn(fn) {
			if cs.Callee == nil || cs.Callee.Name() != sp.callee {
				continue
			}
			n++
			_, lhs := assignedFromCall(fn, cs.Call)
			if len(lhs) != 2 || lhs[0] == nil || lhs[1] == nil {
				c.Bad("C08.R4", sp.callee+" results bound", p.Pos(cs.Call), fn.Key(), "", "not bound")
				continue
			}
			arm := errArm(fn, lhs[1], cs.Call.End())
			if arm == nil {
				c.Bad("C08.R4", sp.callee+" error arm", p.Pos(cs.Call), fn.Key(), "if err != nil {…}", "not found")
				continue
			}
			// in the arm: a statement iterating the result and calling addIPToMap(<eni>.<fam>, &IP{… Status: Deleting})
			record := containsNodeDeep(func(k ast.Node) bool {
				call, ok := k.(*ast.CallExpr)
				if !ok || calleeName(info, call) != "addIPToMap" || len(call.Args) != 2 {
					return false
				}
				fv := fieldOf(info, call.Args[0])
				if fv == nil || fv.Name() != sp.fam {
					return false
				}
				okSt := false
				ast.Inspect(call.Args[1], func(j ast.Node) bool {
					if kv, ok := j.(*ast.KeyValueExpr); ok && exprString(kv.Key) == "Status" {
						if tv := info.Types[kv.Value]; tv.Value != nil && tv.Value.ExactString() == delLit {
							okSt = true
						}
					}
					return true
				})
				return okSt
			})
			iterates := func(nd ast.Node) bool {
				if !record(nd) {
					return false
				}
				uses := false
				ast.Inspect(nd, func(j ast.Node) bool {
					if id, ok := j.(*ast.Ident); ok && info.ObjectOf(id) == lhs[0] {
						uses = true
					}
					return true
				})
				return uses
			}
			// … or a range loop over the result whose body records each item
			rangeOver := map[ast.Node]bool{}
			ast.Inspect(arm.Body, func(k ast.Node) bool {
				if rs, ok := k.(*ast.RangeStmt); ok && identObj(info, rs.X) == lhs[0] && record(rs.Body) {
					rangeOver[rs.X] = true
				}
				return true
			})
			via := func(nd ast.Node) bool { return iterates(nd) || rangeOver[nd] }
			q := NewPathQuery(p, fn, nil)
			q.Prune = func(cond ast.Expr, takeTrue bool) bool { return cond == arm.Cond && !takeTrue }
			exit := func(nd ast.Node) bool {
				_, isRet := nd.(*ast.ReturnStmt)
				return isRet && nd.Pos() > arm.Body.Pos() && nd.End() <= arm.Body.End()
			}
			w := q.Escapes(isExactly(arm.Cond), exit, via, nil)
			c.Check(w == nil, "C08.R4", sp.callee+" error: returned addresses recorded as Deleting ("+sp.fam+")", p.Pos(arm), fn.Key(), "must-pass: err != nil → for each returned item addIPToMap(eni."+sp.fam+", {Status: Deleting}) → return err", "path: "+p.describePath(w))
		}
	}
	c.Floor("C08.R4", "assign calls in assignIP", 2, n)
}

// containsNodeDeep is containsNode that also looks inside function literals.
func containsNodeDeep(f func(ast.Node) bool) nodePred {
	return func(n ast.Node) bool {
		found := false
		ast.Inspect(n, func(m ast.Node) bool {
			if found || m == nil {
				return false
			}
			if f(m) {
				found = true
				return false
			}
			return true
		})
		return found
	}
}

// R5 concurrent writers of the record hold the per-node mutex.
func c08R5(c *Ctx) {
	p := c.P
	c.Rule("C08.R5", "the goroutines started by allocateFromOptions (createENI / assignIP, one per interface) write the shared record (node.Status.NetworkInterfaces, an interface's IPv4/IPv6 map) only while holding the per-node mutex MetaCtx(ctx).Mutex")
	n := 0
	for _, name := range []string{"ReconcileNode.createENI", "ReconcileNode.assignIP"} {
		fn := p.Func(nodeCtlPkg, name)
		if fn == nil {
			c.Unres("C08.R5", name, "not found")
			continue
		}
		info := fn.Info()
		la := NewLockAnalysis(p, fn)
		var writes []ast.Node
		var descs []string
		walkWithLits(fn.Decl.Body, func(nd ast.Node, _ []*ast.FuncLit) {
			switch t := nd.(type) {
			case *ast.AssignStmt:
				for _, l := range t.Lhs {
					l = ast.Unparen(l)
					if ix, ok := l.(*ast.IndexExpr); ok {
						if fv := fieldOf(info, ix.X); fv != nil && (fv.Name() == "NetworkInterfaces" || fv.Name() == "IPv4" || fv.Name() == "IPv6") {
							writes = append(writes, t)
							descs = append(descs, "store into "+fv.Name())
						}
					}
					if fv := fieldOf(info, l); fv != nil && (fv.Name() == "NetworkInterfaces" || ((fv.Name() == "IPv4" || fv.Name() == "IPv6") && typeIs(info.TypeOf(l.(*ast.SelectorExpr).X), modPath+"/"+apiPkg, "NetworkInterface"))) {
						writes = append(writes, t)
						descs = append(descs, "assign "+fv.Name())
					}
				}
			case *ast.CallExpr:
				if calleeName(info, t) == "addIPToMap" {
					writes = append(writes, t)
					descs = append(descs, "addIPToMap")
				}
				if id, ok := t.Fun.(*ast.Ident); ok && id.Name == "delete" && len(t.Args) == 2 {
					if fv := fieldOf(info, t.Args[0]); fv != nil && (fv.Name() == "NetworkInterfaces" || fv.Name() == "IPv4" || fv.Name() == "IPv6") {
						writes = append(writes, t)
						descs = append(descs, "delete from "+fv.Name())
					}
				}
			}
		})
		for i, w := range writes {
			n++
			held := la.HeldBefore(w)
			ok := false
			for k := range held {
				if strings.Contains(k, "MetaCtx(") && strings.HasSuffix(k, ".Mutex") {
					ok = true
				}
			}
			c.Check(ok, "C08.R5", name+": "+descs[i]+" under the node mutex", p.Pos(w), fn.Key(), "held ∋ MetaCtx(ctx).Mutex", "held="+held.String())
		}
	}
	c.Floor("C08.R5", "shared-record writes in createENI/assignIP", 9, n)
	// they really run concurrently: allocateFromOptions starts them in goroutines
	ao := p.Func(nodeCtlPkg, "ReconcileNode.allocateFromOptions")
	if ao != nil {
		inLit := 0
		for _, cs := range p.CallsIn(ao) {
			if cs.Lit != nil && cs.Callee != nil && (fnName(cs.Callee) == "createENI" || fnName(cs.Callee) == "assignIP") {
				inLit++
			}
		}
		c.Check(inLit == 2, "C08.R5", "allocateFromOptions starts createENI / assignIP in per-interface goroutines", p.Pos(ao.Decl), ao.Key(), "both calls inside the function literal handed to wg.StartWithContext", fmt.Sprintf("%d found", inLit))
	}
}

// R6 full sync merges the cloud view into the record.
func c08R6(c *Ctx) {
	p := c.P
	c.Rule("C08.R6", "the full sync merges the cloud's addresses into the record for both families of a known interface and inserts unknown interfaces; a merge helper never stores through a map it allocated into its own parameter variable (the caller would not see it)")
	sw := p.Func(nodeCtlPkg, "ReconcileNode.syncWithAPI")
	merge := p.Func(nodeCtlPkg, "mergeIPMap")
	if sw == nil || merge == nil {
		c.Unres("C08.R6", "syncWithAPI / mergeIPMap", "not found")
		return
	}
	info := sw.Info()
	fams := map[string]bool{}
	for _, cs := range p.CallsTo([]*FuncInfo{sw}, merge.Obj) {
		a, b := fieldOf(info, cs.Call.Args[1]), fieldOf(info, cs.Call.Args[2])
		ok := a != nil && b != nil && a.Name() == b.Name()
		c.Check(ok, "C08.R6", "syncWithAPI merges remote and recorded maps of the same family", p.Pos(cs.Call), sw.Key(), "mergeIPMap(log, remote.IPvX, record.IPvX)", exprString(cs.Call.Args[1])+" vs "+exprString(cs.Call.Args[2]))
		if ok {
			fams[a.Name()] = true
		}
	}
	c.Check(fams["IPv4"] && fams["IPv6"], "C08.R6", "syncWithAPI merges both families", p.Pos(sw.Decl), sw.Key(), "mergeIPMap for IPv4 and IPv6", fmt.Sprintf("%v", fams))
	// lost-update rule (E9c) on every function of the package: parameter map (re)allocated then written
	n := 0
	for _, fn := range p.FuncsInPkg(nodeCtlPkg) {
		reallocs, assigns := mapParamRealloc(fn.Info(), fn.Decl)
		n += assigns
		for _, as := range reallocs {
			c.Bad("C08.R6", fn.Key()+": map allocated into parameter "+exprString(as.Lhs[0]), p.Pos(as), fn.Key(), "a map parameter is never re-allocated inside the callee (entries stored afterwards are invisible to the caller)", "when the caller passes a nil map the merged entries are lost")
		}
	}
	if n == 0 {
		c.OK("C08.R6", "no map parameter is re-allocated in the node controller", "", "", "zero assignments to map-typed parameters")
	}
	// positive control for the matcher: an in-memory example must match
	c.Check(lostUpdateControl(), "C08.R6", "positive control: the lost-update matcher fires on a known-bad snippet", "", "", "embedded example `func f(m map[string]int){ if m == nil { m = make(map[string]int) }; m[\"k\"] = 1 }` is flagged", "matcher did not fire")
	// unknown interfaces are inserted
	okIns := false
	ast.Inspect(sw.Decl.Body, func(nd ast.Node) bool {
		if as, ok := nd.(*ast.AssignStmt); ok && len(as.Lhs) == 1 {
			if ix, ok := ast.Unparen(as.Lhs[0]).(*ast.IndexExpr); ok {
				if fv := fieldOf(info, ix.X); fv != nil && fv.Name() == "NetworkInterfaces" {
					okIns = true
				}
			}
		}
		return true
	})
	c.Check(okIns, "C08.R6", "syncWithAPI inserts interfaces the record does not know", p.Pos(sw.Decl), sw.Key(), "node.Status.NetworkInterfaces[id] = remote", "no insertion found")
}

// R7 exhaustion back-off: sibling agreement.
func c08R7(c *Ctx) {
	p := c.P
	c.Rule("C08.R7", "sibling agreement: every error arm of a create/assign cloud call that tests the vSwitch-exhaustion codes blocks that vSwitch in the pool (so the next attempt picks another one)")
	e1 := p.LookupObj("pkg/aliyun/client/errors", "InvalidVSwitchIDIPNotEnough")
	if e1 == nil {
		c.Unres("C08.R7", "errors.InvalidVSwitchIDIPNotEnough", "not found")
		return
	}
	block := p.Method("pkg/vswitch", "SwitchPool", "Block")
	n := 0
	for _, fn := range p.AllFuncs() {
		info := fn.Info()
		walkWithLits(fn.Decl.Body, func(nd ast.Node, lits []*ast.FuncLit) {
			is, ok := nd.(*ast.IfStmt)
			if !ok {
				return
			}
			call, ok := ast.Unparen(is.Cond).(*ast.CallExpr)
			if !ok || calleeName(info, call) != "ErrorCodeIs" {
				return
			}
			tests := false
			for _, a := range call.Args {
				if identObjSel(info, a) == e1 {
					tests = true
				}
			}
			if !tests {
				return
			}
			// pure classifiers (func(error) bool) are not cloud-call error arms
			sig := fn.Obj.Type().(*types.Signature)
			if len(lits) > 0 {
				if ls, ok := info.TypeOf(lits[len(lits)-1]).(*types.Signature); ok {
					sig = ls
				}
			}
			if sig.Results().Len() == 1 {
				if b, ok := sig.Results().At(0).Type().Underlying().(*types.Basic); ok && b.Kind() == types.Bool {
					return
				}
			}
			n++
			blocks := false
			ast.Inspect(is.Body, func(k ast.Node) bool {
				if bc, ok := k.(*ast.CallExpr); ok && Callee(info, bc) == block {
					blocks = true
				}
				return true
			})
			// arms that only classify (errorHandleLocked sets the inhibit deadline instead) are listed
			if fn.Key() == eniPkg+".Local.errorHandleLocked" {
				c.OK("C08.R7", "exhaustion arm in "+fn.Key()+" (inhibit deadline instead of Block: the node pool has no vSwitch choice per request)", p.Pos(is), fn.Key(), "listed exception")
				return
			}
			c.Check(blocks, "C08.R7", "exhaustion arm in "+fn.Key()+" blocks the vSwitch", p.Pos(is), fn.Key(), "if ErrorCodeIs(err, InvalidVSwitchIDIPNotEnough, …) { vswpool.Block(<vsw>) }", "no SwitchPool.Block in the arm")
		})
	}
	c.Floor("C08.R7", "exhaustion-code arms", 1, n)
}

// R8: a publication that failed forces the full sync. Whatever the reason the
// record could not be written (conflict included), the pass may already have
// changed the cloud: every path on which Status().Update returned an error
// evaluates the StatusChanged swap that arms NeedSyncOpenAPI.
func c08R8(c *Ctx) {
	p := c.P
	c.Rule("C08.R8", "ReconcileNode.Reconcile: every path on which the write-back of the record failed (any error, conflict included) evaluates the StatusChanged swap that arms NeedSyncOpenAPI — a pass that changed the cloud and could not publish is followed by a full sync")
	fn := p.Func(nodeCtlPkg, "ReconcileNode.Reconcile")
	if fn == nil {
		c.Unres("C08.R8", "ReconcileNode.Reconcile", "not found")
		return
	}
	info := fn.Info()
	n := 0
	for _, cs := range p.CallsIn(fn) {
		f := cs.Callee
		if cs.Lit != nil || f == nil || f.Pkg() == nil || f.Pkg().Path() != crClientPkg || (f.Name() != "Update" && f.Name() != "Patch") || len(cs.Call.Args) < 2 {
			continue
		}
		if !typeIs(info.TypeOf(cs.Call.Args[1]), modPath+"/"+apiPkg, "Node") {
			continue
		}
		// only the status write-back (the finalizer patch publishes nothing of the pass)
		sel, _ := ast.Unparen(cs.Call.Fun).(*ast.SelectorExpr)
		if sel == nil {
			continue
		}
		if inner, ok := ast.Unparen(sel.X).(*ast.CallExpr); !ok || Callee(info, inner) == nil || Callee(info, inner).Name() != "Status" {
			continue
		}
		n++
		_, lhs := assignedFromCall(fn, cs.Call)
		if len(lhs) != 1 || lhs[0] == nil {
			c.Bad("C08.R8", "Reconcile: the write-back's error is bound", p.Pos(cs.Call), fn.Key(), "err = Status().Update(…)", "result not bound to a variable")
			continue
		}
		errObj := lhs[0]
		q := NewPathQuery(p, fn, nil)
		q.Prune = func(cond ast.Expr, takeTrue bool) bool {
			be, ok := ast.Unparen(cond).(*ast.BinaryExpr)
			if !ok || identObj(info, be.X) != errObj || !info.Types[ast.Unparen(be.Y)].IsNil() {
				return false
			}
			// follow only the edges on which the error is non-nil
			return (be.Op == token.NEQ && !takeTrue) || (be.Op == token.EQL && takeTrue)
		}
		arms := containsNode(func(k ast.Node) bool {
			call, ok := k.(*ast.CallExpr)
			if !ok {
				return false
			}
			s, ok := ast.Unparen(call.Fun).(*ast.SelectorExpr)
			if !ok {
				return false
			}
			fs, ok := ast.Unparen(s.X).(*ast.SelectorExpr)
			if !ok {
				return false
			}
			fv, _ := info.ObjectOf(fs.Sel).(*types.Var)
			return fv != nil && fv.IsField() && (fv.Name() == "StatusChanged" && s.Sel.Name == "CompareAndSwap" || fv.Name() == "NeedSyncOpenAPI" && s.Sel.Name == "Store")
		})
		reassigned := assignsVar(info, errObj)
		w := q.Escapes(isExactly(cs.Call), nil, func(k ast.Node) bool { return arms(k) || reassigned(k) }, nil)
		c.Check(w == nil, "C08.R8", "Reconcile: a failed write-back arms the full sync", p.Pos(cs.Call), fn.Key(),
			"must-pass on err != nil: Status().Update → StatusChanged.CompareAndSwap / NeedSyncOpenAPI.Store → exit", "path: "+p.describePath(w))
	}
	c.Floor("C08.R8", "status write-backs of the Node record in Reconcile", 1, n)
}

// mergeRule (shared by C02, C03, C08): the merge of the cloud's answer into the
// record is exact in both directions and never touches what the record already
// knows about an address:
//   - every recorded address the cloud does not report is deleted (no exception
//     for an owner: an address that left the interface is not the pod's any more);
//   - every reported address the record lacks is added;
//   - an entry the record already has is never stored over (its owner, UID and
//     status are the record's).
func mergeRule(c *Ctx, rule string) {
	p := c.P
	c.Rule(rule, "mergeIPMap: a recorded address absent from the cloud's answer is always deleted, a reported address absent from the record is always added, and an entry present in both is never stored over (owner, UID and status stay the record's)")
	fn := p.Func(nodeCtlPkg, "mergeIPMap")
	if fn == nil {
		c.Unres(rule, "mergeIPMap", "not found")
		return
	}
	info := fn.Info()
	var remote, current types.Object
	i := 0
	for _, f := range fn.Decl.Type.Params.List {
		for _, nm := range f.Names {
			if _, isMap := info.Defs[nm].Type().Underlying().(*types.Map); isMap {
				if i == 0 {
					remote = info.Defs[nm]
				} else {
					current = info.Defs[nm]
				}
				i++
			}
		}
	}
	if remote == nil || current == nil {
		c.Undec(rule, "mergeIPMap(remote, current)", p.Pos(fn.Decl), fn.Key(), "two map parameters", "signature changed")
		return
	}
	// the lookup `_, ok := M[k]` inside a loop body over the other map (the flag object, whatever its name and scope)
	okOf := func(body *ast.BlockStmt, m types.Object) types.Object {
		var flag types.Object
		ast.Inspect(body, func(k ast.Node) bool {
			as, ok := k.(*ast.AssignStmt)
			if !ok || len(as.Lhs) != 2 || len(as.Rhs) != 1 {
				return true
			}
			if ix, ok := ast.Unparen(as.Rhs[0]).(*ast.IndexExpr); ok && identObj(info, ix.X) == m {
				flag = identObj(info, as.Lhs[1])
			}
			return true
		})
		return flag
	}
	absent := func(flag types.Object) func(e *FactEngine) (*Formula, error) {
		return func(e *FactEngine) (*Formula, error) { return mkNot(e.Cond(identFor(info, flag))), nil }
	}
	nDel, nAdd := 0, 0
	ast.Inspect(fn.Decl.Body, func(nd ast.Node) bool {
		rs, ok := nd.(*ast.RangeStmt)
		if !ok {
			return true
		}
		switch identObj(info, rs.X) {
		case current:
			ok := okOf(rs.Body, remote)
			ast.Inspect(rs.Body, func(k ast.Node) bool {
				call, isC := isBuiltinCall(info, exprOf(k), "delete")
				if !isC || len(call.Args) != 2 || identObj(info, call.Args[0]) != current {
					return true
				}
				nDel++
				if ok == nil {
					c.Undec(rule, "mergeIPMap: deletion decided by the cloud's answer", p.Pos(call), fn.Key(), "_, ok := remote[k]", "lookup not found")
					return true
				}
				c.RequireF(rule, "mergeIPMap: only addresses the cloud no longer reports are deleted", fn, call, "!(key reported by the cloud)", absent(ok))
				c.RequireReachedF(rule, "mergeIPMap: every address the cloud no longer reports is deleted", fn, rs.Body, call, "!(key reported by the cloud)", absent(ok))
				return true
			})
		case remote:
			ok := okOf(rs.Body, current)
			ast.Inspect(rs.Body, func(k ast.Node) bool {
				as, isA := k.(*ast.AssignStmt)
				if !isA || len(as.Lhs) != 1 {
					return true
				}
				ix, isI := ast.Unparen(as.Lhs[0]).(*ast.IndexExpr)
				if !isI || identObj(info, ix.X) != current {
					return true
				}
				nAdd++
				if ok == nil {
					c.Undec(rule, "mergeIPMap: addition decided by the record", p.Pos(as), fn.Key(), "_, ok := current[k]", "lookup not found")
					return true
				}
				c.RequireF(rule, "mergeIPMap: an entry the record already has is never stored over", fn, as, "!(key present in the record)", absent(ok))
				c.RequireReachedF(rule, "mergeIPMap: every reported address the record lacks is added", fn, rs.Body, as, "!(key present in the record)", absent(ok))
				return true
			})
		}
		return true
	})
	// stores into the record's map outside the loop over the cloud's answer
	ast.Inspect(fn.Decl.Body, func(nd ast.Node) bool {
		as, ok := nd.(*ast.AssignStmt)
		if !ok {
			return true
		}
		for _, l := range as.Lhs {
			if ix, ok := ast.Unparen(l).(*ast.IndexExpr); ok && identObj(info, ix.X) == current {
				inRemoteLoop := false
				for _, x := range pathTo(fn.Decl.Body, as) {
					if rs, ok := x.(*ast.RangeStmt); ok && identObj(info, rs.X) == remote {
						inRemoteLoop = true
					}
				}
				if !inRemoteLoop {
					c.Bad(rule, "mergeIPMap: the record is written only while merging the cloud's answer", p.Pos(as), fn.Key(), "stores into the record's map stand in the loop over the cloud's answer", "store elsewhere")
				}
			}
		}
		return true
	})
	c.Floor(rule, "deletions in mergeIPMap", 1, nDel)
	c.Floor(rule, "additions in mergeIPMap", 1, nAdd)
}

// R11: one definition of "spare address". The demand side (getAllocatable: what
// an interface already has to offer, subtracted from what must be requested) and
// the trim side (IdlesWithAvailable: what counts towards the idle total compared
// with the watermarks) test the same conditions on an address of the record. If
// one of them counts an address the other does not, the controller assigns on
// one pass what it unassigns on the next and never reaches a fixed point.
func c08R11(c *Ctx) {
	p := c.P
	c.Rule("C08.R11", "sibling agreement: getAllocatable (demand side) and IdlesWithAvailable (trim side) apply the same tests to an address of the record (same fields, same comparisons) — one definition of a spare address")
	a := p.Func(nodeCtlPkg, "getAllocatable")
	b := p.Func(nodeCtlPkg, "IdlesWithAvailable")
	if a == nil || b == nil {
		c.Unres("C08.R11", "getAllocatable / IdlesWithAvailable", "not found")
		return
	}
	var collect func(fn *FuncInfo, set map[string]bool, depth int)
	lits := func(fn *FuncInfo) []string {
		set := map[string]bool{}
		collect(fn, set, 0)
		var out []string
		for k := range set {
			out = append(out, k)
		}
		sort.Strings(out)
		return out
	}
	collect = func(fn *FuncInfo, set map[string]bool, depth int) {
		info := fn.Info()
		isIPField := func(x ast.Expr) (string, bool) {
			sel, ok := ast.Unparen(x).(*ast.SelectorExpr)
			if !ok {
				return "", false
			}
			fv, _ := info.ObjectOf(sel.Sel).(*types.Var)
			if fv == nil || !fv.IsField() || !typeIs(info.TypeOf(sel.X), modPath+"/"+apiPkg, "IP") {
				return "", false
			}
			return fv.Name(), true
		}
		constText := func(x ast.Expr) string {
			if tv := info.Types[ast.Unparen(x)]; tv.Value != nil {
				return tv.Value.ExactString()
			}
			return exprString(x)
		}
		ast.Inspect(fn.Decl.Body, func(k ast.Node) bool {
			switch t := k.(type) {
			case *ast.BinaryExpr:
				switch t.Op {
				case token.EQL, token.NEQ:
					if f, ok := isIPField(t.X); ok {
						set[f+" "+t.Op.String()+" "+constText(t.Y)] = true
					} else if f, ok := isIPField(t.Y); ok {
						set[f+" "+t.Op.String()+" "+constText(t.X)] = true
					}
				case token.LAND, token.LOR:
					for _, side := range []ast.Expr{t.X, t.Y} {
						if f, ok := isIPField(side); ok {
							set[f] = true
						}
					}
				}
			case *ast.UnaryExpr:
				if t.Op == token.NOT {
					if f, ok := isIPField(t.X); ok {
						set["!"+f] = true
					}
				}
			case *ast.IfStmt:
				if f, ok := isIPField(t.Cond); ok {
					set[f] = true
				}
			case *ast.Ident:
				// a predicate of the same package, called or handed to an iterator: its tests count
				if f, ok := info.Uses[t].(*types.Func); ok && depth < 2 {
					if fi := p.FuncOf(f); fi != nil && fi.Pkg == fn.Pkg && fi != fn {
						collect(fi, set, depth+1)
					}
				}
			}
			return true
		})
	}
	la, lb := lits(a), lits(b)
	c.Check(len(la) > 0 && strings.Join(la, " ∧ ") == strings.Join(lb, " ∧ "), "C08.R11", "getAllocatable and IdlesWithAvailable test an address alike", p.Pos(a.Decl), a.Key(),
		"the same set of tests on the address", "demand side: {"+strings.Join(la, ", ")+"}  trim side: {"+strings.Join(lb, ", ")+"}")
}

// R13: the delete adapter does not answer for the cloud. createENI's roll-back decides "forget the
// interface" or "record it as Deleting" from the error of DeleteNetworkInterface: with the SDK call's
// error non-nil, the adapter returns a non-nil error (no error code is read as "already gone").
func c08R13(c *Ctx) {
	p := c.P
	c.Rule("C08.R13", "OpenAPI.DeleteNetworkInterface: a refused delete is reported — with the SDK call's error non-nil every exit returns a non-nil error")
	fn := p.Func(clientPkg, "OpenAPI.DeleteNetworkInterface")
	if fn == nil {
		c.Unres("C08.R13", "OpenAPI.DeleteNetworkInterface", "not found")
		return
	}
	n := stickyErrors(c, "C08.R13", fn, func(f *types.Func) bool {
		return f.Name() == "DeleteNetworkInterface" && f.Pkg() != nil && strings.Contains(f.Pkg().Path(), "alibaba-cloud-sdk-go")
	}, "cloud call")
	c.Floor("C08.R13", "SDK delete calls in the adapter", 1, n)
}
