#!/bin/bash
# usage: trymutant.sh <patch.diff> <prop>[,<prop>...]  — applies the patch to /repo, runs the quick checks, reverts.
set -u
P="$1"; PROPS="$2"
cd /repo || exit 2
if [ -n "$(git status --porcelain)" ]; then echo "/repo not clean"; exit 2; fi
git apply "$P" || { echo "patch does not apply"; exit 2; }
OUT=$(mktemp -d /tmp/mut.XXXXXX)
VERIF_OUT=$OUT /verif/check.sh "$PROPS" quick 2>&1 | grep -v '^KNOWN-FINDING' | tail -${TAIL:-15}
git checkout -- . ; git clean -fdq -- . >/dev/null 2>&1
rm -rf "$OUT"
