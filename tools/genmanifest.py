#!/usr/bin/env python3
# regenerates /verif/MANIFEST.json from tools/claims.json
import json,os
root=os.path.dirname(os.path.dirname(os.path.abspath(__file__)))
claims=json.load(open(os.path.join(root,'tools','claims.json')))
props=[json.loads(l) for l in open(os.path.join(root,'properties.jsonl'))]
checks=[];na=[]
for p in props:
    i=p['id']
    c=claims.get(i)
    if c and c.get('claimed'):
        checks.append({
          "property_id":i,
          "quick_cmd":"./check.sh %s quick"%i,
          "thorough_cmd":"./check.sh %s thorough"%i,
          "evidence_file":"evidence/%s.json"%i,
          "replay_cmd_template":"./check.sh %s replay {path}"%i,
          "engine":"tvc",
          "level_claimed":{"category":"other","text":c['text'],"design_ref":"DESIGN.md section 3, "+i},
          "level_note":c['note'],
          "technique":c['technique']})
    else:
        na.append({"property_id":i,"reason":(c or {}).get('reason',"check not built yet (work in progress); no claim is made")})
m={"version":1,
   "setup_cmd":"./setup.sh",
   "hooks":{"guard":"verif","enable":"none needed: pure static analysis of the source, no instrumentation in /repo","baseline_off_cmd":"cd /repo && go test -mod=mod -vet=off -count=1 ./...","source_commits":[],"add_only":True},
   "engines":[{"name":"tvc","path":"tvc/","serves_properties":[c['property_id'] for c in checks],"kind_free_text":"bespoke Go static analyser (go/packages+go/types+go/cfg): guard-fact valuation propagation, lock-region dataflow, must-pass path rules, who-may-write/call tables, typestate for pool addresses"}],
   "checks":checks,
   "notes":"All claims are level 'other': static necessary-condition analysis. Each check loads /repo's current working tree with the product build tags and decides rule instances; see DESIGN.md.",
   "not_applicable":na}
json.dump(m,open(os.path.join(root,'MANIFEST.json'),'w'),indent=1)
print(len(checks),'claimed',len(na),'not claimed')
