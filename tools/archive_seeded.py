#!/usr/bin/env python3
"""Copy confirmed seeded defects from a confirm directory into /verif/seeded/<id>/<variant>/ with meta.json.
usage: archive_seeded.py <confirm_dir> [eval_file]"""
import json, os, re, shutil, sys, glob
src = sys.argv[1]
evalf = sys.argv[2] if len(sys.argv) > 2 else None
det = {}
if evalf:
    cur = None
    for l in open(evalf, errors='replace'):
        m = re.match(r'(\S+)/patch.diff violated=\[(.*)\]', l)
        if m:
            cur = os.path.basename(m.group(1)); det[cur] = {"properties": [x for x in m.group(2).split(',') if x], "obligations": []}
        elif cur and l.startswith('    '):
            m2 = re.search(r'\[(\w[\w-]*)\] (C\d\d\.\w+) (.*?) in ', l)
            if m2:
                det[cur]["obligations"].append(m2.group(2) + " " + m2.group(3))
            elif 'below-floor' in l:
                det[cur]["obligations"].append(l.strip()[:160])
for d in sorted(glob.glob(os.path.join(src, 'C??[a-z]'))):
    name = os.path.basename(d)
    c = json.load(open(os.path.join(d, 'confirm.json')))
    good = all(c.get(k) for k in ("patch_applies", "build_ok", "pinned_suite_passes_with_patch", "demo_fails_with_patch", "demo_passes_without_patch"))
    if not good:
        print("NOT CONFIRMED, skipped:", name); continue
    pid, v = name[:3], name[3:]
    out = f'/verif/seeded/{pid}/{v}'
    os.makedirs(out, exist_ok=True)
    for f in os.listdir(d):
        if f.endswith('_test.go') or f in ('patch.diff', 'demo_path.txt'):
            shutil.copy(os.path.join(d, f), os.path.join(out, f))
    am = c.get("agent_meta", {})
    meta = {
        "property": pid, "variant": v,
        "breaks": am.get("breaks") or am.get("summary"),
        "needs_to_manifest": am.get("needs_to_manifest"),
        "files_touched": am.get("files_touched"),
        "origin": "written by a fresh sub-agent given only the property text and a scratch worktree; nothing from /verif",
        "confirmed_by_me": {
            "repo_head": c.get("repo_head"),
            "how": "tools/confirm_seeded.py in a scratch worktree of /repo HEAD: git apply (3-way when the fix commits moved context), go build -tags default_build,privileged ./..., pinned suite go test -vet=off -count=1 ./... (12 ok packages, no test failure), demonstration run with the patch (fails) and after git reset --hard (passes); worktree removed afterwards",
            "patch_rebased_3way": c.get("rebased_3way", False),
            "build_ok": c["build_ok"], "pinned_suite_passes_with_patch": c["pinned_suite_passes_with_patch"],
            "demo_cmd": c["demo_cmd"], "demo_fails_with_patch": c["demo_fails_with_patch"], "demo_passes_without_patch": c["demo_passes_without_patch"],
        },
        "detected_by": det.get(name),
    }
    json.dump(meta, open(os.path.join(out, 'meta.json'), 'w'), indent=1)
    print("archived", name, (det.get(name) or {}).get("properties"))
