#!/bin/bash
# usage: confirm_refactor.sh <dir with patch.diff>  — my own confirmation of a behaviour-preserving variant:
# applies to a scratch worktree of /repo HEAD, tagged build, vet of the touched packages, pinned suite
# (the 12 packages that build without tags must all be ok). Prints one line; worktree is reused via CONFWT.
set -u
d=$1
export GOFLAGS=-mod=mod GOPROXY=off; unset GOWORK
wt=${CONFWT:-/tmp/confwt.$$}
[ -d $wt ] || git -C /repo worktree add --detach $wt HEAD >/dev/null 2>&1
git -C $wt reset -q --hard HEAD; git -C $wt clean -qfd
if ! git -C $wt apply $d/patch.diff 2>/dev/null; then echo "$d APPLY-FAILED"; exit 2; fi
pkgs=$(git -C $wt diff --name-only | grep '\.go$' | xargs -n1 dirname | sort -u | sed 's#^#./#')
b=ok; (cd $wt && go build -tags default_build,privileged ./... ) >/tmp/conf.$$.log 2>&1 || b=FAIL
v=ok; (cd $wt && go vet -tags default_build,privileged $pkgs ) >>/tmp/conf.$$.log 2>&1 || v=FAIL
n=$(cd $wt && go test -vet=off -count=1 ./... 2>/dev/null | grep -c '^ok')
f=$(cd $wt && gofmt -l $pkgs 2>/dev/null | grep -v _test.go | tr '\n' ' ')
echo "$d build=$b vet=$v pinned_ok_pkgs=$n gofmt=[${f}]"
[ "$b$v" = okok ] || tail -5 /tmp/conf.$$.log | sed 's/^/    /'
rm -f /tmp/conf.$$.log
git -C $wt reset -q --hard HEAD; git -C $wt clean -qfd
[ -n "${CONFWT:-}" ] || git -C /repo worktree remove --force $wt
