#!/bin/bash
# usage: evalpatch.sh <patch.diff> [property-list|all]   — runs the quick checks against a scratch
# worktree of /repo HEAD with the patch applied; never touches /repo's working tree.
# prints one line: <patch> violated=<ids> plus the violation keys
set -u
patch=$1; props=${2:-all}
export GOFLAGS=-mod=mod GOPROXY=off; unset GOWORK
wt=${EVALWT:-/tmp/evalwt.$$}
out=$(mktemp -d /tmp/evalout.XXXXXX)
mkdir -p $out/evidence
[ -d $wt ] || git -C /repo worktree add --detach $wt HEAD >/dev/null 2>&1
git -C $wt reset -q --hard HEAD; git -C $wt clean -fdq
if ! git -C $wt apply $patch 2>/dev/null; then
  if ! git -C $wt apply --3way $patch >/dev/null 2>&1; then echo "$patch APPLY-FAILED"; rm -rf $out; exit 2; fi
fi
${TVC_BIN:-/verif/bin/tvc} -property $props -tier quick -repo $wt -verif $out > $out/log 2>&1
ids=$(grep -o '^VIOLATION property=C[0-9]*' $out/log | sed 's/.*=//' | sort -u | tr '\n' ',' )
echo "$patch violated=[${ids%,}]"
if [ "${VERBOSE:-0}" = 1 ]; then
  grep -E '\[(violated|undecided|unresolved|below-floor|fatal)\]' $out/log | sed "s#$wt/##" | cut -c1-400 | sed 's/^/    /'
fi
git -C $wt reset -q --hard HEAD; git -C $wt clean -fdq
[ -n "${EVALWT:-}" ] || { git -C /repo worktree remove --force $wt; }
rm -rf $out
