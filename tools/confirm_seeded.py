#!/usr/bin/env python3
"""Confirm one seeded defect in a scratch worktree of /repo HEAD.
usage: confirm_seeded.py <src_dir (…/Cxx/v)> <out_dir>
Checks: patch applies (rebased diff is saved), tagged build ok, pinned (untagged) suite unchanged,
demonstration fails with the patch and passes without it."""
import json, os, re, shutil, subprocess, sys, tempfile

src, out = sys.argv[1], sys.argv[2]
env = dict(os.environ, GOFLAGS="-mod=mod", GOPROXY="off")
env.pop("GOWORK", None)
def run(cmd, cwd, timeout=1500):
    p = subprocess.run(cmd, cwd=cwd, shell=True, env=env, stdout=subprocess.PIPE, stderr=subprocess.STDOUT, text=True, timeout=timeout)
    return p.returncode, p.stdout

wt = tempfile.mkdtemp(prefix="cw.", dir="/tmp")
os.rmdir(wt)
res = {"source": src}
try:
    rc, o = run(f"git -C /repo worktree add --detach {wt} HEAD", "/repo")
    assert rc == 0, o
    res["repo_head"] = run("git rev-parse --short HEAD", wt)[1].strip()
    demo_txt = open(os.path.join(src, "demo_path.txt")).read()
    copies = []
    for f in sorted(os.listdir(src)):
        if not f.endswith("_test.go"):
            continue
        # the destination: a repo-relative path ending in the file's name (free-form notes)
        cands = [m for m in re.findall(r"(\S*/" + re.escape(f) + r")", demo_txt) if not m.startswith("/tmp") and "/seeded" not in m]
        cands = [re.sub(r"^(\S*>/|\./)", "", c) for c in cands]
        if cands:
            copies.append((f, cands[0]))
    cmds = [l[l.index("go test"):].strip() for l in demo_txt.splitlines() if "go test " in l]
    assert copies and cmds, "cannot parse demo_path.txt"
    cmd = cmds[0].replace(" -v ", " ")
    rc, o = run(f"git apply {src}/patch.diff", wt)
    res["rebased_3way"] = False
    if rc != 0:
        rc, o = run(f"git apply --3way {src}/patch.diff", wt)
        res["rebased_3way"] = True
    res["patch_applies"] = rc == 0
    if rc != 0:
        res["error"] = o[-500:]
        raise SystemExit
    rebased = run("git diff HEAD", wt)[1]
    rc, o = run("go build -tags default_build,privileged ./...", wt)
    res["build_ok"] = rc == 0
    # pinned suite: set of ok packages and absence of test failures
    rc, o = run("go test -vet=off -count=1 ./... 2>&1 | grep -E '^(ok|--- FAIL|FAIL.*[0-9]s$)' | sed 's/\\t[0-9.]*s$//' | sort", wt)
    oks = [l for l in o.splitlines() if l.startswith("ok")]
    fails = [l for l in o.splitlines() if l.startswith("--- FAIL") or (l.startswith("FAIL") and "setup failed" not in l and "build failed" not in l)]
    res["pinned_ok_packages"] = len(oks)
    res["pinned_failures"] = fails
    res["pinned_suite_passes_with_patch"] = len(oks) == 12 and not fails
    for f, dst in copies:
        shutil.copy(os.path.join(src, f), os.path.join(wt, dst))
    rc, o = run(cmd, wt, 900)
    res["demo_cmd"] = cmd
    res["demo_fails_with_patch"] = rc != 0 and ("FAIL" in o)
    res["demo_output_with_patch"] = o[-700:]
    run("git reset -q --hard HEAD", wt)
    assert run("git diff HEAD --stat", wt)[1].strip() == "", "revert failed"
    for f, dst in copies:
        shutil.copy(os.path.join(src, f), os.path.join(wt, dst))
    rc, o = run(cmd, wt, 900)
    res["demo_passes_without_patch"] = rc == 0
    if rc != 0:
        res["demo_output_without_patch"] = o[-700:]
    os.makedirs(out, exist_ok=True)
    open(os.path.join(out, "patch.diff"), "w").write(rebased)
    for f, dst in copies:
        shutil.copy(os.path.join(src, f), os.path.join(out, f))
    shutil.copy(os.path.join(src, "demo_path.txt"), os.path.join(out, "demo_path.txt"))
    res["agent_meta"] = json.load(open(os.path.join(src, "meta.json")))
except SystemExit:
    pass
except Exception as e:
    res["error"] = repr(e)
finally:
    subprocess.run(f"git -C /repo worktree remove --force {wt}", shell=True, stdout=subprocess.DEVNULL, stderr=subprocess.DEVNULL)
    shutil.rmtree(wt, ignore_errors=True)
os.makedirs(out, exist_ok=True)
json.dump(res, open(os.path.join(out, "confirm.json"), "w"), indent=1)
print(src, {k: res.get(k) for k in ("patch_applies", "build_ok", "pinned_suite_passes_with_patch", "demo_fails_with_patch", "demo_passes_without_patch", "error")})
