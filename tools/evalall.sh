#!/bin/bash
# usage: evalall.sh <dir-with-*/patch.diff ...>  — runs evalpatch on each with 4 persistent worktrees
export VERBOSE=${VERBOSE:-1}
ls -d "$@" | xargs -P 4 --process-slot-var=SLOT -I{} sh -c 'EVALWT=/tmp/evalwt.$SLOT /verif/tools/evalpatch.sh {}/patch.diff ${PROPS:-all} > {}/eval.txt 2>&1'
for d in "$@"; do cat $d/eval.txt; done
