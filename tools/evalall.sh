#!/bin/bash
# usage: evalall.sh <dir-with-*/patch.diff ...>  — runs evalpatch on each with 4 persistent worktrees
export VERBOSE=${VERBOSE:-1}
ls -d "$@" | xargs -P 4 -I{} sh -c 'n=$(( $$ % 4 )); exec 9>/tmp/evalwt.lock.$n; flock 9; EVALWT=/tmp/evalwt.$n /verif/tools/evalpatch.sh {}/patch.diff all > {}/eval.txt 2>&1'
for d in "$@"; do cat $d/eval.txt; done
