#!/usr/bin/env python3
"""Assemble /verif/DESIGN.md from the hand-written parts under tools/design/ and the
checker's own output: rule descriptions and counts from evidence/*.json, the seeded-defect
table from seeded/*/*/meta.json, what is decided / not decided from tools/claims.json."""
import glob, json, os, re
V = '/verif'
claims = json.load(open(f'{V}/tools/claims.json'))
props = {json.loads(l)['id']: json.loads(l) for l in open(f'{V}/properties.jsonl')}
out = [open(f'{V}/tools/design/head.md').read().rstrip(), '\n---------------------------------------------------------------------------\n',
       '## 3. Per property\n',
       '### 3a. Rules as built (generated from the evidence of the last quick run)\n',
       'Counts are obligations discharged / evaluated on the current tree. A rule id of another property means the rule is shared '
       '(the same code decides a clause of both).\n']
for pid in sorted(claims):
    ev = f'{V}/evidence/{pid}.json'
    cov = json.load(open(ev))['coverage'] if os.path.exists(ev) else {}
    out.append(f'#### {pid} — {props[pid]["title"]}\n')
    c = claims[pid]
    out.append(f'*Decided:* {c["text"]}\n')
    out.append(f'*Technique:* {c["technique"]}\n')
    out.append(f'*Trusted / not decided:* {c["note"]}\n')
    rules = cov.get('rules') or {}
    per = cov.get('per_rule') or {}
    out.append('| rule | discharged / evaluated | what the rule requires |\n|---|---|---|')
    for rid in sorted(rules, key=lambda r: (r.split('.')[0], r)):
        d = per.get(rid, ['?', '?'])
        out.append(f'| {rid} | {d[0]} / {d[1]} | {rules[rid].replace("|", "/")} |')
    fl = cov.get('instance_floors') or []
    if fl:
        out.append('\nInstance floors: ' + '; '.join(f'{f["rule"]} {f["what"]} ≥ {f["floor"]} (found {f["found"]})' for f in fl) + '\n')
    out.append('')
out.append('### 3b. Reasoning per property (written before the build)\n')
out.append('Kept for the argument *why* each rule is a necessary condition of the behaviour. Rule numbering, floors and idiom lists '
           'in this part are the plan; §3a is what runs.\n')
rat = open(f'{V}/tools/design/rationale.md').read()
rat = rat.replace('## 3. Per-property design', '').replace('\n### C', '\n#### C')
out.append(rat.rstrip() + '\n')
tail = open(f'{V}/tools/design/tail.md').read()
# seeded table
rows = ['| seeded change | breaks | needs, to manifest | reported by (own property first) | obligations that report it |', '|---|---|---|---|---|']
for m in sorted(glob.glob(f'{V}/seeded/*/*/meta.json')):
    d = json.load(open(m))
    det = d.get('detected_by') or {}
    pid = d['property']
    ps = det.get('properties') or []
    ps = [p for p in ps if p == pid] + [p for p in ps if p != pid]
    obs = sorted(set(o for o in (det.get('obligations') or []) if not o.startswith('[below')))
    short = lambda s, n: (s or '').replace('|', '/').replace('\n', ' ')[:n] + ('…' if s and len(s) > n else '')
    rows.append(f'| {pid}/{d["variant"]} | {short(d.get("breaks"), 230)} | {short(d.get("needs_to_manifest"), 170)} | {", ".join(ps) or "**not reported**"} | {short("; ".join(obs), 260)} |')
tail = tail.replace('@SEEDED_TABLE@', '\n'.join(rows))
out.append(tail)
open(f'{V}/DESIGN.md', 'w').write('\n'.join(out))
print('DESIGN.md', sum(len(x) for x in out), 'bytes')
