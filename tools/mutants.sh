#!/bin/bash
# Regression of the checker itself: every seeded defect under /verif/seeded must be reported by the
# check of its own property; every behaviour-preserving variant under /verif/refactors must stay silent.
# Works on scratch worktrees of /repo HEAD (removed at the end); /repo's working tree is not touched.
# usage: tools/mutants.sh [seeded|refactors|all]
set -u
what=${1:-all}
cd /verif && ./setup.sh >/dev/null 2>&1
rc=0
tmp=$(mktemp -d /tmp/mutants.XXXXXX)
run() { # dir expect-mode
  ls -d $1 | xargs -P 4 --process-slot-var=SLOT -I{} sh -c 'VERBOSE=0 EVALWT=/tmp/evalwt.$SLOT /verif/tools/evalpatch.sh {}/patch.diff all' > $tmp/out.txt 2>&1
}
if [ "$what" = seeded ] || [ "$what" = all ]; then
  run "/verif/seeded/C*/?"
  while read -r line; do
    id=$(echo "$line" | sed -n 's#.*/seeded/\(C[0-9]*\)/.*#\1#p')
    case "$line" in
      *"violated=["*"$id"*) ;;
      *) echo "MISSED: $line"; rc=1;;
    esac
  done < $tmp/out.txt
  echo "seeded: $(grep -c violated= $tmp/out.txt) patches evaluated"
fi
if [ "$what" = refactors ] || [ "$what" = all ]; then
  if ls -d /verif/refactors/C*/r* >/dev/null 2>&1; then
    run "/verif/refactors/C*/r*"
    grep -v 'violated=\[\]' $tmp/out.txt | sed 's/^/FALSE-ALARM: /' && rc=1
    echo "refactors: $(grep -c 'violated=\[\]' $tmp/out.txt) of $(grep -c violated= $tmp/out.txt) silent"
  fi
fi
for n in 0 1 2 3; do git -C /repo worktree remove --force /tmp/evalwt.$n 2>/dev/null; done
rm -rf $tmp
exit $rc
