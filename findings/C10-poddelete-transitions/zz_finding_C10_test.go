//go:build default_build

package pod

import (
	"context"
	"testing"

	metav1 "k8s.io/apimachinery/pkg/apis/meta/v1"
	"k8s.io/apimachinery/pkg/runtime"
	k8stypes "k8s.io/apimachinery/pkg/types"
	clientgoscheme "k8s.io/client-go/kubernetes/scheme"
	"sigs.k8s.io/controller-runtime/pkg/client/fake"
	"sigs.k8s.io/controller-runtime/pkg/reconcile"

	networkv1beta1 "github.com/AliyunContainerService/terway/pkg/apis/network.alibabacloud.com/v1beta1"
	"github.com/AliyunContainerService/terway/types"
)

// Known finding (C10): the documented machine only enters Detaching from Bind.
// podDelete enters it from every phase except Detaching/Deleting: a fixed-IP
// record that is already Unbind (its pod was deleted earlier) is sent back to
// Detaching whenever the pod controller reconciles the vanished pod again;
// likewise from Initial and Binding.
func TestFindingC10_PodDeleteEntersDetachingOffTheStateMachine(t *testing.T) {
	sch := runtime.NewScheme()
	_ = clientgoscheme.AddToScheme(sch)
	_ = networkv1beta1.AddToScheme(sch)
	for _, from := range []networkv1beta1.Phase{networkv1beta1.ENIPhaseUnbind, networkv1beta1.ENIPhaseInitial, networkv1beta1.ENIPhaseBinding} {
		rec := &networkv1beta1.PodENI{
			ObjectMeta: metav1.ObjectMeta{Name: "web-0", Namespace: "default", Finalizers: []string{types.FinalizerPodENI}},
			Spec: networkv1beta1.PodENISpec{Allocations: []networkv1beta1.Allocation{{
				AllocationType: networkv1beta1.AllocationType{Type: networkv1beta1.IPAllocTypeFixed, ReleaseStrategy: networkv1beta1.ReleaseStrategyNever},
				ENI:            networkv1beta1.ENI{ID: "eni-1"},
			}}},
			Status: networkv1beta1.PodENIStatus{Phase: from},
		}
		c := fake.NewClientBuilder().WithScheme(sch).WithObjects(rec).WithStatusSubresource(&networkv1beta1.PodENI{}).Build()
		r := &ReconcilePod{client: c, scheme: sch}
		// the pod does not exist any more
		_, err := r.Reconcile(context.Background(), reconcile.Request{NamespacedName: k8stypes.NamespacedName{Namespace: "default", Name: "web-0"}})
		if err != nil {
			t.Fatal(err)
		}
		got := &networkv1beta1.PodENI{}
		if err := c.Get(context.Background(), k8stypes.NamespacedName{Namespace: "default", Name: "web-0"}, got); err != nil {
			t.Fatal(err)
		}
		if got.Status.Phase == networkv1beta1.ENIPhaseDetaching {
			t.Errorf("record moved %q -> Detaching, which is not an edge of the documented state machine (only Bind -> Detaching)", from)
		}
	}
}
