//go:build default_build

package vswitch

import (
	"context"
	"fmt"
	"reflect"
	"testing"
)

// Selection must never reorder the caller's candidate list (C17). The list is
// usually a long-lived configuration slice (node spec / controller config)
// shared between reconciles and goroutines.
func TestFindingC17_RandomPolicyKeepsCallerListIntact(t *testing.T) {
	pool, err := NewSwitchPool(100, "10m")
	if err != nil {
		t.Fatal(err)
	}
	var ids, want []string
	for i := 0; i < 8; i++ {
		id := fmt.Sprintf("vsw-%d", i)
		ids = append(ids, id)
		want = append(want, id)
		pool.Add(&Switch{ID: id, Zone: "zone-a", AvailableIPCount: 10})
	}
	for i := 0; i < 20; i++ {
		if _, err := pool.GetOne(context.Background(), nil, "zone-a", ids, &SelectOptions{VSwitchSelectPolicy: VSwitchSelectionPolicyRandom}); err != nil {
			t.Fatal(err)
		}
		if !reflect.DeepEqual(ids, want) {
			t.Fatalf("GetOne reordered the caller's candidate list: %v (was %v)", ids, want)
		}
	}
}
