//go:build default_build

package eni

import (
	"context"
	"net/netip"
	"testing"
	"time"

	"github.com/stretchr/testify/mock"

	factorymocks "github.com/AliyunContainerService/terway/pkg/factory/mocks"
	"github.com/AliyunContainerService/terway/types/daemon"
)

// Finding C01: Set.PutValid replaces an entry that a live pod still owns.
//
// History: pod A holds X (ADD succeeded, no DEL). X is removed from the
// interface behind the daemon's back; the periodic sync marks X invalid but
// keeps the entry and its owner. The pool then asks the cloud for one more
// address and the cloud hands out X again (it is free on the cloud's side).
// factoryAllocWorker records it with PutValid, which overwrites the entry with
// a fresh, unowned one; the waiting pod B gets X although A never released it.
func TestFindingC01PutValidKeepsOwner(t *testing.T) {
	x := netip.MustParseAddr("192.0.2.10")
	f := factorymocks.NewFactory(t)
	f.On("LoadNetworkInterface", mock.Anything).Return([]netip.Addr{}, []netip.Addr{}, nil).Maybe()
	f.On("AssignNIPv4", "eni-1", 1, "").Return([]netip.Addr{x}, nil).Once()
	f.On("AssignNIPv4", "eni-1", mock.Anything, "").Return(nil, nil).Maybe()

	local := NewLocalTest(&daemon.ENI{ID: "eni-1"}, f, &daemon.PoolConfig{EnableIPv4: true, BatchSize: 10, MaxIPPerENI: 10}, "")
	local.status = statusInUse

	// pod A holds X
	local.ipv4.PutValid(x)
	local.ipv4[x].Allocate("ns/pod-a")

	// remote removal seen by the periodic sync
	local.sync()
	if local.ipv4[x] == nil || local.ipv4[x].Valid() || local.ipv4[x].podID != "ns/pod-a" {
		t.Fatalf("precondition: X invalid and still owned by pod A, got %#v", local.ipv4[x])
	}

	// pod B asks; nothing is available, the cloud re-issues X
	ctx, cancel := context.WithCancel(context.Background())
	defer cancel()
	go local.factoryAllocWorker(ctx)
	ch, _ := local.Allocate(ctx, &daemon.CNI{PodID: "ns/pod-b"}, NewLocalIPRequest())
	if ch == nil {
		t.Fatal("pod B request was not accepted")
	}
	select {
	case resp := <-ch:
		if resp != nil && resp.Err == nil {
			for _, r := range resp.NetworkConfigs {
				if lr, ok := r.(*LocalIPResource); ok && lr.IP.IPv4 == x {
					t.Errorf("pod B was handed %s, which pod A still holds", x)
				}
			}
		}
	case <-time.After(3 * time.Second):
		// no address for pod B: acceptable, X belongs to pod A
	}
	local.cond.L.Lock()
	defer local.cond.L.Unlock()
	if got := local.ipv4[x].podID; got != "ns/pod-a" {
		t.Errorf("owner of %s is %q, want ns/pod-a (pod A never released it)", x, got)
	}
}
