//go:build default_build && privileged

package daemon

import (
	"context"
	"fmt"
	"net"
	"net/netip"
	"strings"
	"sync"
	"testing"

	"github.com/stretchr/testify/mock"
	"github.com/stretchr/testify/require"

	"github.com/AliyunContainerService/terway/pkg/eni"
	factorymocks "github.com/AliyunContainerService/terway/pkg/factory/mocks"
	k8smocks "github.com/AliyunContainerService/terway/pkg/k8s/mocks"
	"github.com/AliyunContainerService/terway/pkg/storage"
	"github.com/AliyunContainerService/terway/rpc"
	"github.com/AliyunContainerService/terway/types"
	"github.com/AliyunContainerService/terway/types/daemon"
)

// newFindingC04Service wires the real networkService + eni.Manager + eni.Local
// (shared-ENI / ENIMultiIP mode) on top of mocked k8s and cloud factory.
func newFindingC04Service(t *testing.T, k *k8smocks.Kubernetes) *networkService {
	t.Helper()

	const mac = "00:16:3e:00:00:01"
	f := &factorymocks.Factory{}
	f.On("LoadNetworkInterface", mac).Return(
		[]netip.Addr{netip.MustParseAddr("192.168.0.10"), netip.MustParseAddr("192.168.0.11")},
		[]netip.Addr(nil), nil)

	_, cidr, err := net.ParseCIDR("192.168.0.0/24")
	require.NoError(t, err)

	local := eni.NewLocal(&daemon.ENI{
		ID:          "eni-1",
		MAC:         mac,
		PrimaryIP:   types.IPSet{IPv4: net.ParseIP("192.168.0.2")},
		GatewayIP:   types.IPSet{IPv4: net.ParseIP("192.168.0.253")},
		VSwitchCIDR: types.IPNetSet{IPv4: cidr},
		VSwitchID:   "vsw-1",
	}, "secondary", f, &daemon.PoolConfig{
		EnableIPv4:  true,
		MaxIPPerENI: 10,
		BatchSize:   5,
	})

	mgr := eni.NewManager(0, 0, 0, 0, []eni.NetworkInterface{local}, daemon.EniSelectionPolicyMostIPs, nil)

	ctx, cancel := context.WithCancel(context.Background())
	t.Cleanup(cancel)
	require.NoError(t, mgr.Run(ctx, &sync.WaitGroup{}, nil))

	return &networkService{
		daemonMode: daemon.ModeENIMultiIP,
		k8s:        k,
		resourceDB: storage.NewMemoryStorage(),
		eniMgr:     mgr,
		enableIPv4: true,
		ipamType:   types.IPAMTypeDefault,
	}
}

// findingC04Owner returns the pod that owns ip according to the pool Status().
func findingC04Owner(t *testing.T, svc *networkService, ip string) string {
	t.Helper()
	mapping, err := svc.GetResourceMapping()
	require.NoError(t, err)
	for _, m := range mapping {
		for _, line := range m.Info {
			// "<ip>  <podID>  <status>"
			fields := strings.Split(line, "  ")
			if len(fields) == 3 && fields[0] == ip {
				return fields[1]
			}
		}
	}
	t.Fatalf("ip %s not found in pool status %v", ip, mapping)
	return ""
}


// failingPutStorage fails the first Put (e.g. disk full / bolt error), then behaves normally.
type failingPutStorage struct {
	storage.Storage
	failures int
}

func (f *failingPutStorage) Put(key string, value interface{}) error {
	if f.failures > 0 {
		f.failures--
		return fmt.Errorf("injected: no space left on device")
	}
	return f.Storage.Put(key, value)
}

// An ADD whose database write fails must hand back the address it took:
// the runtime then gives up on the pod (DEL finds no record), and the address
// must be free for other pods. (C04: "An ADD that fails hands back every address it took".)
func TestFindingC04_FailedAddHandsBackAddress(t *testing.T) {
	const ns, name = "default", "pod-a"
	pod := &daemon.PodInfo{Namespace: ns, Name: name, PodNetworkType: daemon.PodNetworkTypeENIMultiIP, PodUID: "uid-1"}
	k := &k8smocks.Kubernetes{}
	k.On("GetPod", mock.Anything, ns, name, mock.Anything).Return(pod, nil)
	k.On("GetServiceCIDR").Return(&types.IPNetSet{})

	svc := newFindingC04Service(t, k)
	svc.resourceDB = &failingPutStorage{Storage: svc.resourceDB, failures: 1}
	ctx := context.Background()

	_, err := svc.AllocIP(ctx, &rpc.AllocIPRequest{K8SPodName: name, K8SPodNamespace: ns, K8SPodInfraContainerId: "sandbox-1", Netns: "/var/run/netns/cni-1", IfName: "eth0"})
	require.Error(t, err, "the injected database failure must fail the ADD")

	// the runtime tears the sandbox down; no record exists, so DEL is a no-op
	_, err = svc.ReleaseIP(ctx, &rpc.ReleaseIPRequest{K8SPodName: name, K8SPodNamespace: ns, K8SPodInfraContainerId: "sandbox-1"})
	require.NoError(t, err)

	for _, ip := range []string{"192.168.0.10", "192.168.0.11"} {
		require.Equalf(t, "", findingC04Owner(t, svc, ip), "address %s is still marked as owned by a pod whose ADD failed and that holds nothing", ip)
	}
}
