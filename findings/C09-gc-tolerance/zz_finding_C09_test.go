//go:build default_build && linux

package daemon

import (
	"context"
	"errors"
	"testing"

	"github.com/AliyunContainerService/terway/pkg/eni"
	"github.com/AliyunContainerService/terway/pkg/k8s"
	"github.com/AliyunContainerService/terway/pkg/storage"
	"github.com/AliyunContainerService/terway/types/daemon"
)

type findingC09K8s struct {
	k8s.Kubernetes // unimplemented methods panic: they must not be reached
}

func (f *findingC09K8s) GetLocalPods() ([]*daemon.PodInfo, error)    { return nil, nil }
func (f *findingC09K8s) PodExist(namespace, name string) (bool, error) { return false, nil }
func (f *findingC09K8s) NodeName() string                              { return "node-1" }

func findingC09Service(db storage.Storage) *networkService {
	return &networkService{
		daemonMode: daemon.ModeENIMultiIP,
		k8s:        &findingC09K8s{},
		resourceDB: db,
		eniMgr:     eni.NewManager(0, 0, 0, 0, nil, daemon.EniSelectionPolicyMostIPs, nil),
		enableIPv4: true,
	}
}

// A record whose interface is no longer attached (its MAC is not on the node)
// must not stop GC: the record is collected and the pass succeeds
// (C09: "kernel rule cleanup tolerates a missing interface").
func TestFindingC09_GCToleratesDetachedInterface(t *testing.T) {
	db := storage.NewMemoryStorage()
	const mac = "02:00:de:ad:be:ef" // no such device
	rec := daemon.PodResources{
		PodInfo: &daemon.PodInfo{Namespace: "default", Name: "gone", PodUID: "uid-gone", PodNetworkType: daemon.PodNetworkTypeENIMultiIP},
		Resources: []daemon.ResourceItem{{
			Type: daemon.ResourceTypeENIIP, ID: mac + ".10.0.0.5", ENIID: "eni-detached", ENIMAC: mac, IPv4: "10.0.0.5",
		}},
	}
	if err := db.Put("default/gone", rec); err != nil {
		t.Fatal(err)
	}
	svc := findingC09Service(db)
	for i := 0; i < 2; i++ {
		if err := svc.gcPods(context.Background()); err != nil {
			t.Fatalf("gcPods pass %d failed because of a record whose interface is detached: %v", i, err)
		}
	}
	if _, err := db.Get("default/gone"); !errors.Is(err, storage.ErrNotFound) {
		t.Fatalf("record of the vanished pod was not collected (err=%v)", err)
	}
}

// A stored record without pod info (written by an old version / damaged) must
// not crash the daemon (C09/C15: stored records cannot make a component panic).
func TestFindingC09_GCSurvivesRecordWithoutPodInfo(t *testing.T) {
	db := storage.NewMemoryStorage()
	if err := db.Put("default/legacy", daemon.PodResources{
		Resources: []daemon.ResourceItem{{Type: daemon.ResourceTypeENIIP, ID: "02:00:de:ad:be:ef.10.0.0.6"}},
	}); err != nil {
		t.Fatal(err)
	}
	svc := findingC09Service(db)
	defer func() {
		if r := recover(); r != nil {
			t.Fatalf("gcPods panicked on a stored record without PodInfo: %v", r)
		}
	}()
	_ = svc.gcPods(context.Background())
}
