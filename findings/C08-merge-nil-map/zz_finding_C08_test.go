//go:build default_build

package node

import (
	"context"
	"testing"
	"time"

	"github.com/stretchr/testify/assert"
	"github.com/stretchr/testify/mock"
	"go.opentelemetry.io/otel/trace/noop"
	metav1 "k8s.io/apimachinery/pkg/apis/meta/v1"

	aliyunClient "github.com/AliyunContainerService/terway/pkg/aliyun/client"
	networkv1beta1 "github.com/AliyunContainerService/terway/pkg/apis/network.alibabacloud.com/v1beta1"
	"github.com/AliyunContainerService/terway/pkg/controller/mocks"
	vswpool "github.com/AliyunContainerService/terway/pkg/vswitch"
)

// The full synchronisation must bring the record in line with the cloud (C08:
// "record and cloud agree again after the next full synchronisation"). An
// interface recorded without an IPv6 map (e.g. recorded while the node was
// IPv4 only, or stored by the creation roll-back) must receive the addresses
// the cloud reports for it.
func TestFindingC08_FullSyncFillsMissingAddressMap(t *testing.T) {
	ctx := MetaIntoCtx(context.TODO())
	MetaCtx(ctx).NeedSyncOpenAPI.Store(true)

	openAPI := mocks.NewInterface(t)
	openAPI.On("DescribeNetworkInterfaceV2", mock.Anything, mock.Anything).Return([]*aliyunClient.NetworkInterface{{
		Status:             "InUse",
		NetworkInterfaceID: "eni-1",
		VSwitchID:          "vsw-1",
		Type:               "Secondary",
		PrivateIPSets:      []aliyunClient.IPSet{{IPAddress: "192.168.0.1", Primary: true}},
		IPv6Set:            []aliyunClient.IPSet{{IPAddress: "fd00::10"}},
	}}, nil).Maybe()

	vsw, err := vswpool.NewSwitchPool(100, "10m")
	assert.NoError(t, err)

	node := &networkv1beta1.Node{
		ObjectMeta: metav1.ObjectMeta{Name: "foo"},
		Spec: networkv1beta1.NodeSpec{
			NodeMetadata: networkv1beta1.NodeMetadata{InstanceID: "i-1"},
			ENISpec:      &networkv1beta1.ENISpec{},
		},
		Status: networkv1beta1.NodeStatus{
			NetworkInterfaces: map[string]*networkv1beta1.NetworkInterface{
				"eni-1": {
					ID:     "eni-1",
					Status: "InUse",
					IPv4:   map[string]*networkv1beta1.IP{"192.168.0.1": {IP: "192.168.0.1", Primary: true}},
					// IPv6 map absent in the record
				},
			},
		},
	}
	r := &ReconcileNode{aliyun: openAPI, vswpool: vsw, fullSyncNodePeriod: time.Hour, tracer: noop.NewTracerProvider().Tracer("")}
	assert.NoError(t, r.syncWithAPI(ctx, node))
	assert.Contains(t, node.Status.NetworkInterfaces["eni-1"].IPv6, "fd00::10", "the address the cloud reports for eni-1 never reaches the record")
}
