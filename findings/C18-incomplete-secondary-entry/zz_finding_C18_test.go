//go:build default_build

package webhook

import (
	"context"
	"encoding/json"
	"testing"

	jsonpatchapply "github.com/evanphx/json-patch"
	admissionv1 "k8s.io/api/admission/v1"
	corev1 "k8s.io/api/core/v1"
	metav1 "k8s.io/apimachinery/pkg/apis/meta/v1"
	"k8s.io/apimachinery/pkg/runtime"
	"k8s.io/utils/ptr"
	"sigs.k8s.io/controller-runtime/pkg/client/fake"
	"sigs.k8s.io/controller-runtime/pkg/webhook/admission"

	"github.com/AliyunContainerService/terway/pkg/apis/network.alibabacloud.com/v1beta1"
	"github.com/AliyunContainerService/terway/types"
	"github.com/AliyunContainerService/terway/types/controlplane"
)

// Known finding (C18): "every pod the webhook marks for a dedicated ENI leaves
// admission with a network list in which each entry has vSwitches and security
// groups". The cluster defaults are only applied to the eth0 entry; a second
// entry without vSwitches / security groups is emitted as is.
func TestFindingC18_SecondaryEntryLeavesAdmissionIncomplete(t *testing.T) {
	scheme := runtime.NewScheme()
	_ = corev1.AddToScheme(scheme)
	_ = v1beta1.AddToScheme(scheme)

	eniConfig := &corev1.ConfigMap{
		ObjectMeta: metav1.ObjectMeta{Name: "eni-config", Namespace: "kube-system"},
		Data: map[string]string{"eni_conf": `{"version":"1","max_pool_size":5,"min_pool_size":0,"vswitches":{"cn-hangzhou-k":["vsw-default"]},"security_groups":["sg-default"],"service_cidr":"10.0.0.0/16"}`},
	}
	c := fake.NewClientBuilder().WithScheme(scheme).WithObjects(eniConfig).Build()

	pod := &corev1.Pod{
		TypeMeta: metav1.TypeMeta{Kind: "Pod", APIVersion: "v1"},
		ObjectMeta: metav1.ObjectMeta{
			Name: "two-nics", Namespace: "default",
			Annotations: map[string]string{
				types.PodNetworks: `{"podNetworks":[{"interface":"eth0"},{"interface":"eth1"}]}`,
			},
		},
		Spec: corev1.PodSpec{Containers: []corev1.Container{{Name: "c", Image: "busybox"}}},
	}
	raw, _ := json.Marshal(pod)
	cfg := &controlplane.Config{EnableTrunk: ptr.To(true), EnableWebhookInjectResource: ptr.To(true), IPAMType: types.IPAMTypeDefault}
	req := &admission.Request{AdmissionRequest: admissionv1.AdmissionRequest{
		Kind: metav1.GroupVersionKind{Version: "v1", Kind: "Pod"}, Name: pod.Name, Namespace: pod.Namespace,
		Object: runtime.RawExtension{Raw: raw},
	}}
	resp := podWebhook(context.Background(), req, c, cfg)
	if !resp.Allowed {
		return // denying an incomplete entry would satisfy the property as well
	}
	patchBytes, _ := json.Marshal(resp.Patches)
	p, err := jsonpatchapply.DecodePatch(patchBytes)
	if err != nil {
		t.Fatal(err)
	}
	outRaw, err := p.Apply(raw)
	if err != nil {
		t.Fatal(err)
	}
	out := &corev1.Pod{}
	if err = json.Unmarshal(outRaw, out); err != nil {
		t.Fatal(err)
	}
	if out.Annotations[types.PodENI] != "true" {
		t.Skip("pod was not marked for a dedicated ENI")
	}
	parsed, err := controlplane.ParsePodNetworksFromAnnotation(out)
	if err != nil {
		t.Fatal(err)
	}
	for _, n := range parsed.PodNetworks {
		if len(n.VSwitchOptions) == 0 || len(n.SecurityGroupIDs) == 0 {
			t.Errorf("entry %q leaves admission without vSwitches (%v) / security groups (%v)", n.Interface, n.VSwitchOptions, n.SecurityGroupIDs)
		}
	}
}
