//go:build default_build

package daemon

import (
	"testing"

	"github.com/AliyunContainerService/terway/pkg/aliyun/client"
	"github.com/AliyunContainerService/terway/types/daemon"
)

// Pool watermarks must satisfy 0 <= min <= max <= capacity for every
// configuration (C19); negative configured sizes were passed through.
func TestFindingC19_NegativePoolSizesAreClamped(t *testing.T) {
	limit := &client.Limits{Adapters: 4, IPv4PerAdapter: 10}
	for _, cfg := range []*daemon.Config{
		{MinPoolSize: -3, MaxPoolSize: 5, EniCapRatio: 1},
		{MinPoolSize: -3, MaxPoolSize: -1, EniCapRatio: 1},
		{MinPoolSize: 2, MaxPoolSize: -7, EniCapRatio: 1},
	} {
		pc, err := getPoolConfig(cfg, daemon.ModeENIMultiIP, limit)
		if err != nil {
			t.Fatal(err)
		}
		if !(0 <= pc.MinPoolSize && pc.MinPoolSize <= pc.MaxPoolSize && pc.MaxPoolSize <= pc.Capacity) {
			t.Errorf("min_pool_size=%d max_pool_size=%d: watermarks min=%d max=%d capacity=%d violate 0 <= min <= max <= capacity",
				cfg.MinPoolSize, cfg.MaxPoolSize, pc.MinPoolSize, pc.MaxPoolSize, pc.Capacity)
		}
	}
}
