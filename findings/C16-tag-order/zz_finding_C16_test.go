//go:build default_build

package client

import (
	"fmt"
	"testing"
)

// A create-interface request that fails is retried with the same parameters and
// must carry the same client token (C16) — for any number of tags. The request
// hash must therefore not depend on the iteration order of the tag map.
func TestFindingC16_RetryReusesTokenWithManyTags(t *testing.T) {
	tags := map[string]string{}
	for i := 0; i < 6; i++ {
		tags[fmt.Sprintf("key-%d", i)] = fmt.Sprintf("value-%d", i)
	}
	gen := NewIdempotentKeyGenerator()
	for attempt := 0; attempt < 20; attempt++ {
		opts := &CreateNetworkInterfaceOptions{NetworkInterfaceOptions: &NetworkInterfaceOptions{
			VSwitchID: "vsw-1", SecurityGroupIDs: []string{"sg-1"}, Tags: tags,
		}}
		req, rollBack, err := opts.Finish(gen)
		if err != nil {
			t.Fatal(err)
		}
		first := req.ClientToken
		rollBack() // the call failed: the token goes back

		retry := &CreateNetworkInterfaceOptions{NetworkInterfaceOptions: &NetworkInterfaceOptions{
			VSwitchID: "vsw-1", SecurityGroupIDs: []string{"sg-1"}, Tags: tags,
		}}
		req2, rollBack2, err := retry.Finish(gen)
		if err != nil {
			t.Fatal(err)
		}
		if req2.ClientToken != first {
			t.Fatalf("attempt %d: the retry carries token %s, the failed call carried %s: the cloud may create a duplicate interface", attempt, req2.ClientToken, first)
		}
		rollBack2()
		// drain for the next round
		opts.Finish(gen) //nolint
	}
}
