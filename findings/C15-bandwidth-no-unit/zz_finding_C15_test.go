//go:build default_build

package k8s

import "testing"

// A bandwidth annotation without a unit ("100") must be accepted as bytes and
// must never crash the daemon (C15). convertPod runs on every RPC for the pod.
func TestFindingC15_BandwidthWithoutUnit(t *testing.T) {
	defer func() {
		if r := recover(); r != nil {
			t.Fatalf("parseBandwidth(\"100\") panicked: %v", r)
		}
	}()
	got, err := parseBandwidth("100")
	if err != nil || got != 100 {
		t.Fatalf("parseBandwidth(\"100\") = %d, %v; want 100, nil", got, err)
	}
	for _, s := range []string{"1K", "1M", "1G", "1T", "5", "5B"} {
		if _, err := parseBandwidth(s); err != nil {
			t.Errorf("parseBandwidth(%q): %v", s, err)
		}
	}
}
