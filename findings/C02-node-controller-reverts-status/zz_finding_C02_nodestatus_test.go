//go:build default_build

package node

import (
	"context"
	"testing"

	"github.com/aliyun/alibaba-cloud-sdk-go/services/eflo"
	"github.com/stretchr/testify/mock"
	"github.com/stretchr/testify/require"
	corev1 "k8s.io/api/core/v1"
	metav1 "k8s.io/apimachinery/pkg/apis/meta/v1"
	"k8s.io/apimachinery/pkg/runtime"
	k8stypes "k8s.io/apimachinery/pkg/types"
	clientgoscheme "k8s.io/client-go/kubernetes/scheme"
	"k8s.io/client-go/tools/record"
	"sigs.k8s.io/controller-runtime/pkg/client"
	"sigs.k8s.io/controller-runtime/pkg/client/fake"
	"sigs.k8s.io/controller-runtime/pkg/client/interceptor"
	"sigs.k8s.io/controller-runtime/pkg/reconcile"

	networkv1beta1 "github.com/AliyunContainerService/terway/pkg/apis/network.alibabacloud.com/v1beta1"
	"github.com/AliyunContainerService/terway/pkg/controller/mocks"
)

// Finding C02 (node controller reverts the record's status).
//
// The IPAM record (nodes.network.alibabacloud.com) has two writers: the multi-ip node
// controller owns its status (interfaces, addresses, bindings) and publishes it with
// Status().Update; the node controller owns spec and labels — but its write-back,
// controllerutil.CreateOrPatch with a mutate function that also sets
// `update.Status = node.Status`, copies the status it read at the start of its own
// reconcile over whatever the record holds when CreateOrPatch fetches it again. The
// node controller never changes the status, so the line can only revert somebody
// else's update: a binding published between its two reads is wiped, the address
// looks free again and the next pass may give it to a second pod.
//
// The test injects exactly that interleaving: the multi-ip controller's
// Status().Update lands between the node controller's Get of the record and the Get
// that CreateOrPatch performs. The binding has to be in the record afterwards.
func TestFindingC02_NodeControllerKeepsConcurrentBinding(t *testing.T) {
	const name = "lingjun-1"
	ctx := context.Background()

	scheme := runtime.NewScheme()
	require.NoError(t, clientgoscheme.AddToScheme(scheme))
	require.NoError(t, networkv1beta1.AddToScheme(scheme))

	k8sNode := &corev1.Node{
		ObjectMeta: metav1.ObjectMeta{
			Name: name,
			UID:  "node-uid",
			Labels: map[string]string{
				"alibabacloud.com/lingjun-worker":  "true",
				"node.kubernetes.io/instance-type": "instanceType",
				"topology.kubernetes.io/region":    "regionID",
				"topology.kubernetes.io/zone":      "zoneID",
			},
		},
		Spec: corev1.NodeSpec{ProviderID: "instanceID"},
	}

	// the record as it stands after the node joined: one LENI in use, two idle addresses
	crNode := &networkv1beta1.Node{
		ObjectMeta: metav1.ObjectMeta{
			Name:       name,
			Finalizers: []string{finalizer},
			Labels: map[string]string{
				"name":                            name,
				"alibabacloud.com/lingjun-worker": "true",
			},
		},
		Spec: networkv1beta1.NodeSpec{
			NodeMetadata: networkv1beta1.NodeMetadata{
				RegionID:     "regionID",
				InstanceType: "instanceType",
				InstanceID:   "instanceID",
				ZoneID:       "zoneID",
			},
			NodeCap: networkv1beta1.NodeCap{Adapters: 20, TotalAdapters: 20, IPv4PerAdapter: 10},
		},
		Status: networkv1beta1.NodeStatus{
			NetworkInterfaces: map[string]*networkv1beta1.NetworkInterface{
				"leni-1": {
					ID:                          "leni-1",
					Status:                      "InUse",
					NetworkInterfaceType:        networkv1beta1.ENITypeSecondary,
					NetworkInterfaceTrafficMode: networkv1beta1.NetworkInterfaceTrafficModeStandard,
					IPv4: map[string]*networkv1beta1.IP{
						"10.0.0.10": {IP: "10.0.0.10", IPName: "ip-10", Status: networkv1beta1.IPStatusValid},
						"10.0.0.11": {IP: "10.0.0.11", IPName: "ip-11", Status: networkv1beta1.IPStatusValid},
					},
				},
			},
		},
	}

	base := fake.NewClientBuilder().
		WithScheme(scheme).
		WithStatusSubresource(&networkv1beta1.Node{}).
		WithObjects(k8sNode, crNode).
		Build()
	// the second read of the record in one reconcile is the one CreateOrPatch performs:
	// let the other controller finish its pass right before it
	crGets := 0
	var publishBinding func()
	c := interceptor.NewClient(base, interceptor.Funcs{
		Get: func(ctx context.Context, cl client.WithWatch, key client.ObjectKey, obj client.Object, opts ...client.GetOption) error {
			if _, isCR := obj.(*networkv1beta1.Node); isCR {
				crGets++
				if crGets == 2 && publishBinding != nil {
					publishBinding()
				}
			}
			return cl.Get(ctx, key, obj, opts...)
		},
	})

	// what the multi-ip node controller does at the end of a pass: Status().Update of the record
	published := false
	publishBinding = func() {
		cur := &networkv1beta1.Node{}
		require.NoError(t, base.Get(ctx, client.ObjectKey{Name: name}, cur))
		ip := cur.Status.NetworkInterfaces["leni-1"].IPv4["10.0.0.10"]
		ip.PodID = "default/web-0"
		ip.PodUID = "uid-web-0"
		require.NoError(t, base.Status().Update(ctx, cur))
		published = true
	}

	ac := mocks.NewInterface(t)
	ac.On("GetNodeInfoForPod", mock.Anything, "instanceID").
		Return(&eflo.Content{LeniQuota: 20, LniSipQuota: 10}, nil).Maybe()

	r := &ReconcileNode{
		client:      c,
		scheme:      scheme,
		aliyun:      ac,
		record:      record.NewFakeRecorder(100),
		supportEFLO: true,
	}

	_, err := r.Reconcile(ctx, reconcile.Request{NamespacedName: k8stypes.NamespacedName{Name: name}})
	require.NoError(t, err)

	require.True(t, published, "the interleaving was not exercised")

	got := &networkv1beta1.Node{}
	require.NoError(t, base.Get(ctx, client.ObjectKey{Name: name}, got))
	ip := got.Status.NetworkInterfaces["leni-1"].IPv4["10.0.0.10"]
	require.NotNil(t, ip)
	require.Equalf(t, "default/web-0", ip.PodID,
		"binding 10.0.0.10 -> default/web-0 published by the multi-ip controller was wiped from the record by the node controller (record: %+v)", ip)
	require.Equal(t, "uid-web-0", ip.PodUID)
}
